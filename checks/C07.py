"""C07 - exact cover (solvor.dlx.solve_exact_cover, dancing links): bounded back end.

Top-level contract (taken from the property statement), evaluated on the real function:
  * every returned selection covers each primary column exactly once, each secondary column at most once, and uses
    only rows that cover a primary column;
  * find_all without a cut-off (no max_solutions cut, no MAX_ITER) returns exactly the set of all covers, no
    duplicates; with max_solutions=k at most k, all valid, all distinct;
  * INFEASIBLE  <=>  no cover exists (unless the call was legitimately cut off by max_iter, status MAX_ITER;
    a cut-off is never legitimate when max_iter >= 2^rows, an upper bound on any Algorithm-X search tree);
  * matrix / columns / secondary are not modified; a second identical call gives the same answer.
Inner contracts (private helpers, skipped gracefully if they are renamed): _build_links builds consistent rings;
_cover removes exactly the column and the conflicting rows; _cover(c1..ck) then _uncover(ck..c1) restores every
left/right/up/down/size field; search() leaves the structure as built whenever the top-level search returns False.
Oracle: oracles/exact_cover.py (subset enumeration).

Beyond the small scope (same top-level contract, same judge(), certifying oracles instead of subset enumeration):
  * size ladder: block-structured instances from 10 to 2600 rows/columns (square, tall, wide; rows and columns
    shuffled) whose covers are the unions of one cover per independent part (union-find split + enumeration per part;
    the product of the planted per-block counts is cross-checked); every returned selection is also checked directly
    against the definition;
  * long searches: n-queens (diagonals secondary), perfect matchings of K_2m, set partitions, domino tilings, with
    10^3 .. 10^6 search iterations and up to 10^5 covers, judged against first-uncovered-column backtracking on bit
    masks and against the closed-form counts;
  * history mode: every ladder / long-search / small random instance is the start of a sequence of calls in ONE
    process on the SAME matrix / columns / secondary objects with in-place edits between the calls (names of two
    columns exchanged, names permuted, secondary entries removed / added, cells flipped, rows appended / removed);
    every call is judged against the oracle for the input as it is at that call, is repeated, and the last call of
    the sequence is compared with the answer of a fresh interpreter process.
The interpreter's recursion limit is never touched (the code under test may look at it).
"""
from __future__ import annotations

import ast
import itertools
import json
import os
import random
import signal
import subprocess
import sys
import time

from vf.core import Ctx, use_repo
from vf.pool import pmap
from oracles import exact_cover as O

LEVEL = "exploration"
P = "C07/solve_exact_cover/"
CALL_TIMEOUT = 5.0  # CPU seconds per solver call in the small scopes (largest instance: 8 rows, a clean call takes < 1 ms)
TIMEOUT = [CALL_TIMEOUT]  # the limit in force; history tasks on big instances raise it for their own calls
HANGS = [0]  # hangs seen by this worker process; after a few, time-outs shrink and then whole tasks are skipped
FIELDS = ("left", "right", "up", "down")


class _Timeout(Exception):
    pass


def _alarm(signum, frame):
    raise _Timeout()


def guarded(fn, *a, **k):
    """Run fn under a CPU-time alarm (an endless loop burns CPU; a wall-clock alarm would fire spuriously on a loaded
    machine). Returns ('ok', value) | ('exc', repr) | ('hang', None)."""
    old = signal.signal(signal.SIGVTALRM, _alarm)
    signal.setitimer(signal.ITIMER_VIRTUAL, TIMEOUT[0] if HANGS[0] < 3 else min(TIMEOUT[0], 1.0 + TIMEOUT[0] / 10))
    try:
        return "ok", fn(*a, **k)
    except _Timeout:
        HANGS[0] += 1
        return "hang", None
    except RecursionError as e:
        return "exc", f"RecursionError: {str(e)[:80]}"
    except Exception as e:  # noqa: BLE001 - any exception from the solver is an observation
        return "exc", f"{type(e).__name__}: {str(e)[:200]}"
    finally:
        signal.setitimer(signal.ITIMER_VIRTUAL, 0)
        signal.signal(signal.SIGVTALRM, old)


# ------------------------------------------------------------------ case encoding
def matrix_from_code(R, C, code):
    return [[(code >> (i * C + j)) & 1 for j in range(C)] for i in range(R)]


def in_form(matrix, form):
    if form == "tuple":
        return tuple(tuple(r) for r in matrix)
    if form == "rowtuple":
        return [tuple(r) for r in matrix]
    if form == "bool":
        return [[bool(v) for v in r] for r in matrix]
    return [list(r) for r in matrix]


def lit(s):
    return None if s is None else ast.literal_eval(s)


def make_case(matrix, form, columns, secondary, cfg):
    return {"kind": "solve", "matrix": [list(map(int, r)) for r in matrix], "form": form,
            "columns": None if columns is None else repr(columns),
            "secondary": None if secondary is None else repr(secondary),
            "find_all": cfg[0], "max_solutions": cfg[1], "max_iter": cfg[2]}


def case_size(case):
    if case.get("kind") == "history":
        rows = case["rows"]
        return (len(rows) * case["n_cols"], len(rows), sum(map(len, rows)), case["fail_step"] + len(case["steps"]), len(repr(case)))
    m = case["matrix"]
    plain = sum(case.get(k) is not None for k in ("columns", "secondary", "max_solutions", "max_iter")) + (case.get("form", "list") != "list")
    return (len(m) * (len(m[0]) if m else 0), len(m), sum(map(sum, m)), plain, len(repr(case)))


def n_cols_of(matrix):
    return len(matrix[0]) if matrix else 0


# ------------------------------------------------------------------ the top-level contract
def call_solver(D, m_arg, columns, secondary, cfg):
    kw = {}
    if columns is not None:
        kw["columns"] = columns
    if secondary is not None:
        kw["secondary"] = secondary
    if cfg[0]:
        kw["find_all"] = True
    if cfg[1] is not None:
        kw["max_solutions"] = cfg[1]
    if cfg[2] is not None:
        kw["max_iter"] = cfg[2]
    return guarded(D.solve_exact_cover, m_arg, **kw)


def observe(r):
    st = getattr(getattr(r, "status", None), "name", repr(getattr(r, "status", None)))
    return (repr(getattr(r, "solution", "<no .solution>")), st, getattr(r, "objective", None))


class Truth:
    """What the oracle knows about one instance: the covers are the unions of one cover per independent part
    (parts = [[cover, ...], ...], covers as tuples of row indices). A plain set of covers is the one-part case.
    Nothing is multiplied out: membership is decided part by part, the number of covers is the product."""

    def __init__(self, parts):
        self.parts = [[frozenset(c) for c in p] for p in parts]
        self.sets = [set(p) for p in self.parts]
        self.rows = [frozenset().union(*p) if p else frozenset() for p in self.parts]
        self.all_rows = frozenset().union(*self.rows) if self.rows else frozenset()
        self.total = 1
        for p in self.parts:
            self.total *= len(p)
        self.exists = self.total > 0

    @classmethod
    def of(cls, covers):
        return covers if isinstance(covers, Truth) else cls([list(covers)])

    def contains(self, fs):
        if not self.exists or not fs <= self.all_rows:
            return False
        if len(self.parts) == 1:
            return fs in self.sets[0]
        return all((fs & rows) in st for rows, st in zip(self.rows, self.sets))

    def example(self):
        return sorted(frozenset().union(*[min(p, key=sorted) for p in self.parts])) if self.exists else None

    def missing(self, got):
        """A cover that is not in `got` (a set of frozensets), or None."""
        if not self.exists:
            return None
        if len(self.parts) == 1:
            rest = self.sets[0] - got
            return sorted(min(rest, key=sorted)) if rest else None
        if sum(1 for g in got if self.contains(g)) >= self.total:
            return None
        for combo in itertools.product(*self.parts):  # fewer than `total` covers were returned: found within len(got)+1 steps
            u = frozenset().union(*combo)
            if u not in got:
                return sorted(u)
        return None


def short(x, n=300):
    t = repr(x)
    return t if len(t) <= n else t[:n] + f"... ({len(t)} characters)"


def judge(D, matrix, form, columns, secondary, cfg, flags, covers, m_arg=None, sp=None, defects=None):
    """Evaluate the contract for one call configuration.
    covers: set of frozensets (all covers) or a Truth. m_arg: the very object to hand to the solver (history mode;
    default: a fresh copy of `matrix` in representation `form`). sp: sparse rows of `matrix` (big instances: returned
    selections are then checked on the sparse form). defects: list collecting oracle self-contradictions.
    Returns (list of (obligation, detail), hang: bool, result or None)."""
    find_all, max_solutions, max_iter = cfg
    R, C = len(matrix), n_cols_of(matrix)
    zd = "/zero-dimension" if R == 0 or C == 0 else ""
    bad = []
    T = Truth.of(covers)
    if m_arg is None:
        m_arg = in_form(matrix, form)
    pristine = [list(r) for r in m_arg]
    col_snap = None if columns is None else list(columns)
    sec_snap = None if secondary is None else (set(secondary) if isinstance(secondary, (set, frozenset)) else list(secondary))

    how, r = call_solver(D, m_arg, columns, secondary, cfg)
    if how == "hang":
        return bad, True, None
    if how == "exc":
        bad.append((P + "returns" + zd, f"raised {r}"))
        return bad, False, None

    # frame: inputs untouched
    if [list(x) for x in m_arg] != pristine or len(m_arg) != R:
        bad.append((P + "frame:matrix-unchanged", f"matrix after the call: {short(m_arg)}"))
    if col_snap is not None and list(columns) != col_snap:
        bad.append((P + "frame:matrix-unchanged", f"columns after the call: {short(columns)}"))
    if sec_snap is not None and (set(secondary) if isinstance(secondary, (set, frozenset)) else list(secondary)) != sec_snap:
        bad.append((P + "frame:matrix-unchanged", f"secondary after the call: {short(secondary)}"))

    # same input again -> same answer. In history mode (the caller passes its own objects) the list returned by the
    # first call is emptied before the second call and refilled afterwards: what a caller does to its result must not
    # reach the next answer.
    obs1 = observe(r)
    mine = getattr(r, "solution", None)
    kept = None
    if defects is not None and isinstance(mine, list):
        kept = list(mine)
        mine.clear()
    how2, r2 = call_solver(D, m_arg, columns, secondary, cfg)
    if how2 == "hang":
        return bad, True, r
    if how2 == "exc":
        bad.append((P + "ensures:deterministic", f"second call raised {r2}, first returned {short(obs1)}"))
    elif obs1 != observe(r2):
        bad.append((P + "ensures:deterministic", f"first call {short(obs1)}, second call "
                    f"{'(after the caller emptied the list it got from the first) ' if kept is not None else ''}{short(observe(r2))}"))
    if kept is not None:
        mine[:] = kept

    status = getattr(getattr(r, "status", None), "name", None)
    sol = getattr(r, "solution", None)
    if status not in ("OPTIMAL", "FEASIBLE", "INFEASIBLE", "MAX_ITER"):
        bad.append((P + "ensures:result-shape", f"status {status!r}"))
        return bad, False, r

    # which selections were returned
    shape_ok = True
    if sol is None:
        sels = []
    elif find_all:
        if isinstance(sol, (list, tuple)) and all(isinstance(s, (tuple, list)) for s in sol):
            # (a bare tuple of selections is read as the collection it is, which is what `for s in result.solution`
            # sees; completeness below decides whether it holds every cover)
            sels = [tuple(s) for s in sol]
        else:
            shape_ok = False
            sels = []
            bad.append((P + "ensures:result-shape" + zd, f"find_all=True but solution is {short(sol)} (not a list of selections)"))
    else:
        if isinstance(sol, (tuple, list)) and all(isinstance(i, int) for i in sol):
            sels = [tuple(sol)]
        else:
            shape_ok = False
            sels = []
            bad.append((P + "ensures:result-shape" + zd, f"find_all=False but solution is {short(sol)} (not a tuple of row indices)"))

    # every returned selection is an exact cover made of rows with a primary 1
    # (directly against the definition; past the first 2000 selections of one answer the definition is consulted only
    # for selections that the oracle's enumeration does not list - and must then reject them, or the oracle is broken)
    for k, s in enumerate(sels):
        if k >= 2000:
            fs = frozenset(s)
            if len(fs) == len(s) and T.contains(fs):
                continue
        why = O.why_not_cover(matrix, flags, s) if sp is None else O.why_not_cover_sparse(sp, flags, s)
        if why is not None:
            ob = "ensures:only-rows-with-primary" if why.startswith("row ") else "ensures:selection-is-exact-cover"
            bad.append((P + ob + zd, f"status {status}, returned {short(s, 120)}: {why}"))
            break
        if not T.contains(frozenset(s)) and defects is not None:
            defects.append(f"oracle self-contradiction: {short(s, 200)} passes the definition but is not in the enumeration")
    if len({frozenset(s) for s in sels}) != len(sels):
        bad.append((P + "ensures:find_all-no-duplicates" + zd, f"returned {short(sels)}"))

    exists = T.exists
    if status == "INFEASIBLE" and exists:
        bad.append((P + "ensures:infeasible-iff-no-cover" + zd,
                    f"INFEASIBLE reported but {T.total} cover(s) exist, e.g. rows {short(T.example(), 200)}"))
    if status == "INFEASIBLE" and sels:
        bad.append((P + "ensures:result-shape" + zd, f"INFEASIBLE together with selections {short(sels)}"))
    if status == "MAX_ITER":
        eff = 10_000_000 if max_iter is None else max_iter
        if eff >= 2 ** R:
            bad.append((P + "ensures:decides-when-max_iter-cannot-bind" + zd,
                        f"MAX_ITER with max_iter={eff} >= 2^{R}: no Algorithm-X search tree on {R} rows has that many nodes"))
    else:
        if not exists and status != "INFEASIBLE":
            bad.append((P + "ensures:infeasible-iff-no-cover" + zd, f"no cover exists but status is {status}, solution {short(sol)}"))
        if exists and shape_ok and not sels and status != "INFEASIBLE":
            bad.append((P + ("ensures:find_all-complete" if find_all else "ensures:returns-a-cover") + zd,
                        f"status {status}, {T.total} cover(s) exist, solution {short(sol)} holds no selection"))
    if find_all and shape_ok:
        cut_by_count = bool(max_solutions) and len(sels) >= max_solutions
        if max_solutions and len(sels) > max_solutions:
            bad.append((P + "ensures:max_solutions-cutoff" + zd, f"max_solutions={max_solutions} but {len(sels)} selections returned"))
        if status != "MAX_ITER" and not cut_by_count and sels:
            missing = T.missing({frozenset(s) for s in sels})
            if missing is not None:
                bad.append((P + "ensures:find_all-complete" + zd,
                            f"status {status}, {len(sels)} returned of {T.total}; missing e.g. rows {short(missing, 200)}"))
    return bad, False, r


# ------------------------------------------------------------------ inner contracts on the link structure
def helpers(D):
    fns = tuple(getattr(D, n, None) for n in ("_build_links", "_cover", "_uncover"))
    return fns if all(callable(f) for f in fns) else None


def closure(root, headers, limit=4000):
    seen, order, stack = {}, [], [root] + list(headers)
    while stack and len(order) < limit:
        o = stack.pop()
        if o is None or id(o) in seen:
            continue
        seen[id(o)] = len(order)
        order.append(o)
        for f in FIELDS:
            stack.append(getattr(o, f, None))
    return order, seen


def snapshot(order, seen):
    return [tuple(seen.get(id(getattr(o, f, None)), -1) for f in FIELDS) + (getattr(o, "size", None),) for o in order]


def snap_diff(order, a, b):
    for k, (x, y) in enumerate(zip(a, b)):
        if x != y:
            o = order[k]
            what = f"header {getattr(o, 'name', '?')!r}" if hasattr(o, "size") else (
                f"node(row {getattr(o, 'row', '?')}, col {getattr(getattr(o, 'column', None), 'name', None)!r})")
            fld = [n for n, u, v in zip(FIELDS + ("size",), x, y) if u != v]
            return f"{what}: field(s) {fld} differ (object #{k}: before {x}, after {y})"
    return None


def cycle(start, nxt, prv, bound):
    """Walk start.nxt... until back at start. Returns list of the other members or a string on inconsistency."""
    out, x = [], getattr(start, nxt)
    for _ in range(bound + 2):
        if x is start:
            break
        out.append(x)
        x = getattr(x, nxt)
    else:
        return f"ring through {nxt} does not close within {bound + 2} steps"
    for y in [start] + out:
        if getattr(getattr(y, nxt), prv) is not y or getattr(getattr(y, prv), nxt) is not y:
            return f"{nxt}/{prv} are not inverse at a member"
    if len({id(y) for y in out}) != len(out):
        return "a member occurs twice"
    return out


def wellformed(matrix, flags, names, root, headers, removed=()):
    """Expected shape of the structure after the columns in `removed` have been covered (none: as built)."""
    R, C = len(matrix), len(flags)
    if len(headers) != C:
        return f"{len(headers)} column headers for {C} columns"
    for j, h in enumerate(headers):
        if getattr(h, "name", names[j]) != names[j]:
            return f"header {j} is named {h.name!r}, expected {names[j]!r}"
    ring = cycle(root, "right", "left", C + 1)
    if isinstance(ring, str):
        return "primary header ring: " + ring
    want = [id(headers[j]) for j in range(C) if not flags[j] and j not in removed]
    if sorted(map(id, ring)) != sorted(want):
        return f"primary header ring holds {len(ring)} members, expected the {len(want)} uncovered primary headers"
    for j in (j for j in range(C) if flags[j] and j not in removed):
        # (own ring with a second root, as here, or self-linked as in Knuth's paper: both are fine)
        ring = cycle(headers[j], "right", "left", C + 2)
        if isinstance(ring, str):
            return "secondary header ring: " + ring
        ids = [id(x) for x in ring]
        if any(id(headers[k]) in ids for k in range(C) if not flags[k]) or id(root) in ids:
            return "a secondary header shares a left/right ring with the root or a primary header"
    nodes = {}
    for j, h in enumerate(headers):
        col = cycle(h, "down", "up", R + 1)
        if isinstance(col, str):
            return f"column {j}: " + col
        # rows still listed in column j: those not removed by a column covered while j was still uncovered
        earlier = removed[: removed.index(j)] if j in removed else removed
        want_rows = sorted(i for i in range(R) if matrix[i][j] and not any(matrix[i][k] for k in earlier))
        rows = sorted(getattr(n, "row", None) for n in col)
        if rows != want_rows:
            return f"column {j} lists rows {rows}, expected {want_rows}"
        if h.size != len(want_rows):
            return f"column {j}: size {h.size}, length {len(want_rows)}"
        for n in col:
            if n.column is not h:
                return f"column {j}: a node points to another header"
            nodes[(n.row, j)] = n
    if removed:
        return None
    for i in range(R):
        mine = [nodes[(i, j)] for j in range(C) if matrix[i][j]]
        if mine:
            ring = cycle(mine[0], "right", "left", C + 1)
            if isinstance(ring, str):
                return f"row {i}: " + ring
            if sorted(map(id, ring + [mine[0]])) != sorted(map(id, mine)):
                return f"row {i}: the left/right ring does not hold exactly the row's nodes"
    return None


def links_case(matrix, columns, secondary, seq):
    return {"kind": "links", "matrix": matrix, "columns": None if columns is None else repr(columns),
            "secondary": None if secondary is None else repr(secondary), "seq": list(seq)}


def check_links(D, matrix, columns, secondary, seqs):
    """Returns (violations [(obligation, case, detail)], number of evaluations) or (None, 0) if not applicable."""
    H = helpers(D)
    if H is None or not matrix or not matrix[0]:
        return None, 0
    build, cover, uncover = H
    C = len(matrix[0])
    flags = O.secondary_flags(C, columns, secondary)
    names = list(columns) if columns else list(range(C))
    out, n = [], 0

    def body():
        nonlocal n
        for seq in seqs:
            n += 1
            got = build([list(r) for r in matrix], columns, secondary)
            if not (isinstance(got, tuple) and len(got) == 3 and got[0] is not None):
                raise TypeError(f"_build_links returned {type(got).__name__} of unexpected shape")
            root, headers = got[0], list(got[1])
            why = wellformed(matrix, flags, names, root, headers)
            if why:
                out.append(("C07/_build_links/ensures:rings-wellformed", links_case(matrix, columns, secondary, ()), why))
                return
            order, seen = closure(root, headers)
            snaps = [snapshot(order, seen)]
            for k, c in enumerate(seq):
                cover(headers[c])
                snaps.append(snapshot(order, seen))
                why = wellformed(matrix, flags, names, root, headers, removed=tuple(seq[: k + 1]))
                if why:
                    out.append(("C07/_cover/ensures:removes-column-and-conflicting-rows",
                                links_case(matrix, columns, secondary, seq[: k + 1]), f"after covering columns {list(seq[:k + 1])}: {why}"))
                    return
            for k in range(len(seq) - 1, -1, -1):
                uncover(headers[seq[k]])
                d = snap_diff(order, snaps[k], snapshot(order, seen))
                if d:
                    out.append(("C07/_cover+_uncover/ensures:exact-inverse", links_case(matrix, columns, secondary, seq),
                                f"cover {list(seq)} then uncover back to depth {k}: {d}"))
                    return

    how, r = guarded(body)
    if how == "exc" and r.startswith("TypeError: _build_links returned"):
        return None, 0
    if how != "ok":
        out.append(("C07/_cover+_uncover/ensures:exact-inverse", links_case(matrix, columns, secondary, ()),
                    f"helper walk {'did not come back' if how == 'hang' else 'raised ' + str(r)}"))
    return out, n


def check_search_restores(D, matrix, columns, secondary, cfg):
    """Run one extra call with _build_links wrapped (in this process only) to get hold of the structure; when the
    top-level search() returned False the structure must be exactly as built."""
    H = helpers(D)
    if H is None or not matrix or not matrix[0]:
        return None
    grabbed = []
    orig = D._build_links

    def spy(*a, **k):
        got = orig(*a, **k)
        if isinstance(got, tuple) and len(got) == 3 and got[0] is not None:
            order, seen = closure(got[0], list(got[1]))
            grabbed.append((order, seen, snapshot(order, seen)))
        return got

    D._build_links = spy
    try:
        how, r = call_solver(D, [list(x) for x in matrix], columns, secondary, cfg)
    finally:
        D._build_links = orig
    if how != "ok" or len(grabbed) != 1:
        return None if how == "ok" else []
    sol = getattr(r, "solution", None)
    if cfg[0]:
        returned_true = bool(cfg[1]) and isinstance(sol, list) and len(sol) >= cfg[1]
    else:
        returned_true = sol is not None
    if returned_true:
        return []
    order, seen, before = grabbed[0]
    d = snap_diff(order, before, snapshot(order, seen))
    if d:
        c = make_case(matrix, "list", columns, secondary, cfg)
        c["kind"] = "restore"
        return [("C07/search/ensures:structure-restored-when-False", c, d)]
    return []


# ------------------------------------------------------------------ configurations per level
MODES = [(False, None), (True, None), (True, 1), (True, 2)]


def configs(level, R, n_iter):
    """n_iter: the iteration count the code itself reported for the unlimited find_all / first run; used only to
    aim max_iter at the boundary (N-1 cuts, N must not), never as an oracle."""
    out = []
    if level == "full":
        for m in MODES + [(True, 0), (False, 1), (True, 3)]:
            for it in (None, 5, 0, 1, 2, 3, 2 ** R):
                out.append(m + (it,))
    elif level == "mid":
        for m in MODES:
            for it in (None, 5):
                out.append(m + (it,))
    else:
        out += [(True, None, None), (False, None, None)]
    for fa in (True, False):
        n = n_iter.get(fa)
        if isinstance(n, int) and n >= 1:
            for it in ((n - 1, n) if level != "lite" else (n,)):
                if (fa, None, it) not in out:
                    out.append((fa, None, it))
            if level == "full" and (True, 2, n - 1) not in out and fa:
                out.append((True, 2, n - 1))
    return out


def eval_pair(D, matrix, form, columns, secondary, level, acc):
    """All configurations of one (matrix, names, secondary) instance."""
    R, C = len(matrix), n_cols_of(matrix)
    flags = O.secondary_flags(C, columns, secondary)
    covers = O.all_covers(matrix, flags)
    nontrivial = any(not f for f in flags) and bool(O.eligible_rows(matrix, flags))
    # generator hint: the code's own iteration counts (two unjudged calls)
    n_iter = {}
    for fa in (True, False):
        how, r = call_solver(D, in_form(matrix, form), columns, secondary, (fa, None, None))
        if how == "ok" and isinstance(getattr(r, "iterations", None), int):
            n_iter[fa] = r.iterations
    cfgs = configs(level, R, n_iter)
    truth = Truth([list(covers)])
    for cfg in cfgs:
        bad, hang, r = judge(D, matrix, form, columns, secondary, cfg, flags, truth)
        acc["n_eval"] += 1
        if nontrivial:
            acc["n_nontrivial"] += 1
        if hang:
            acc["hangs"].append(make_case(matrix, form, columns, secondary, cfg))
        for ob, detail in bad:
            acc["viol"].append((ob, make_case(matrix, form, columns, secondary, cfg), detail))
        if r is not None and getattr(getattr(r, "status", None), "name", "") == "MAX_ITER":
            acc["cut_by_max_iter"] += 1
    acc["pairs"] += 1
    acc["pairs_feasible"] += bool(covers)
    acc["pairs_multi"] += len(covers) > 1
    acc["max_covers"] = max(acc["max_covers"], len(covers))
    return nontrivial, len(cfgs)


def link_seqs(C, code, level):
    cols = range(C)
    if level == "full":
        return [()] + [p for k in (1, 2, 3) for p in itertools.permutations(cols, k)] + \
               [p for p in itertools.permutations(cols, C) if C > 3][:24]
    rng = random.Random(code * 7919 + C)
    seqs = [(c,) for c in cols] if level == "mid" else [(code % C,)]
    for _ in range(3 if level == "mid" else 2):
        k = rng.randint(min(2, C), C)
        seqs.append(tuple(rng.sample(list(cols), k)))
    return seqs


def new_acc():
    return {"n_eval": 0, "n_nontrivial": 0, "viol": [], "hangs": [], "pairs": 0, "pairs_feasible": 0, "pairs_multi": 0,
            "max_covers": 0, "cut_by_max_iter": 0, "link_evals": 0, "links_skipped": 0, "restore_evals": 0, "samples": [],
            "defects": [], "oracle_limit": [], "hist_calls": {}, "iters_ge": {}, "max_listed": 0, "max_dims": [0, 0],
            "hist_steps": 0, "histories": 0, "fresh_compared": 0}


def sec_masks(C, code, mode):
    if mode == "all":
        return range(1 << C)
    a = (code * 2654435761 >> 5) % (1 << C)
    b = 1 << (code % C) if C else 0
    return sorted({0, a, b})


def work(task):
    """Pool worker. task = dict(kind='codes', R, C, codes=[...] or lo/hi, level, sec) | dict(kind='cases', items, level)."""
    use_repo()
    import solvor.dlx as D
    acc = new_acc()
    t0 = time.process_time()
    level = task["level"]
    if HANGS[0] >= 8:  # a tree that loops for ever on many inputs: do not spend the budget waiting
        acc["skipped_task"] = 1
        acc["cpu"] = 0.0
        return acc
    if task["kind"] == "codes":
        R, C = task["R"], task["C"]
        codes = task["codes"] if "codes" in task else range(task["lo"], task["hi"])
        for code in codes:
            matrix = matrix_from_code(R, C, code)
            masks = sec_masks(C, code, task["sec"])
            for mask in masks:
                secondary = None if mask == 0 and code % 2 == 0 else [j for j in range(C) if mask >> j & 1]
                eval_pair(D, matrix, "list", None, secondary, level, acc)
            if R and C:
                # inner contracts: two secondary masks per matrix (lite level: one, and cover/uncover sequences on
                # every 4th matrix only; the search-restores run is kept on every matrix)
                for mask in sorted({0, masks[code % len(masks)]}) if level != "lite" else (masks[code % len(masks)],):
                    secondary = [j for j in range(C) if mask >> j & 1]
                    v, n = check_links(D, matrix, None, secondary, link_seqs(C, code, level)) if level != "lite" or code % 4 == 0 else ([], 0)
                    if v is None:
                        acc["links_skipped"] += 1
                    else:
                        acc["link_evals"] += n
                        acc["viol"] += v
                    for cfg in ((True, None, None), (True, None, 5), (False, None, 3)) if level != "lite" else ((True, None, None),):
                        v = check_search_restores(D, matrix, None, secondary, cfg)
                        if v is not None:
                            acc["restore_evals"] += 1
                            acc["viol"] += v
        if codes:
            acc["samples"].append(make_case(matrix_from_code(R, C, codes[len(codes) // 2]), "list", None, None, (True, None, None)))
    else:
        for matrix, form, col_s, sec_s in task["items"]:
            columns, secondary = lit(col_s), lit(sec_s)
            eval_pair(D, matrix, form, columns, secondary, level, acc)
            code = sum(v << k for k, v in enumerate(itertools.chain.from_iterable(matrix)))
            if matrix and matrix[0] and (level != "lite" or sec_s is None):
                v, n = check_links(D, matrix, columns, secondary, link_seqs(len(matrix[0]), code, "mid" if level != "lite" else "lite"))
                if v is None:
                    acc["links_skipped"] += 1
                else:
                    acc["link_evals"] += n
                    acc["viol"] += v
                v = check_search_restores(D, matrix, columns, secondary, (True, None, None))
                if v is not None:
                    acc["restore_evals"] += 1
                    acc["viol"] += v
        if task["items"]:
            m, f, c, s = task["items"][0]
            acc["samples"].append({"kind": "solve", "matrix": m, "form": f, "columns": c, "secondary": s,
                                   "find_all": True, "max_solutions": None, "max_iter": None})
    acc["cpu"] = time.process_time() - t0
    return acc


# ------------------------------------------------------------------ generators
def dense_matrix(rng, R, C, weights=(3, 8, 30, 36, 16, 7)):
    """Rows mostly with 2..C ones (several with 3+), some duplicates, an occasional empty or single row."""
    rows = []
    for _ in range(R):
        u = rng.random()
        if rows and u < 0.12:
            rows.append(list(rng.choice(rows)))
            continue
        k = rng.choices([0, 1, 2, 3, 4, 5], weights=weights)[0]
        k = min(k, C)
        ones = set(rng.sample(range(C), k))
        rows.append([1 if j in ones else 0 for j in range(C)])
    return rows


def planted_matrix(rng, R, C):
    """At least one cover planted (a random partition of the columns), the other rows random, rows shuffled."""
    cols = list(range(C))
    rng.shuffle(cols)
    nb = rng.randint(1, max(1, min(R, C)))
    cuts = sorted(rng.sample(range(1, C), min(nb - 1, C - 1))) if C > 1 else []
    blocks = [cols[a:b] for a, b in zip([0] + cuts, cuts + [C])]
    rows = [[1 if j in blk else 0 for j in range(C)] for blk in blocks][:R]
    while len(rows) < R:
        u = rng.random()
        if u < 0.25:
            rows.append(list(rng.choice(rows)))
        elif u < 0.5 and len(blocks) > 1:  # merge or split material: union of two blocks / part of one block
            a, b = rng.sample(blocks, 2)
            rows.append([1 if j in a or j in b else 0 for j in range(C)])
        else:
            rows.append([1 if rng.random() < 0.4 else 0 for _ in range(C)])
    rng.shuffle(rows)
    return rows


NAME_SCHEMES = ("str", "revint", "shiftint", "tuple", "dup", "eqhash", "none", "empty")


def names_for(rng, scheme, C):
    if scheme == "str":
        return [chr(97 + j) for j in range(C)]
    if scheme == "revint":
        return list(range(C - 1, -1, -1))
    if scheme == "shiftint":
        return [j + 1 for j in range(C)]
    if scheme == "tuple":
        return [("c", j // 2, j % 2) for j in range(C)]
    if scheme == "dup":
        return [rng.choice("ab") if rng.random() < 0.6 else chr(99 + j) for j in range(C)]
    if scheme == "eqhash":
        pool = [True, 0.0, 2, "2", (2,), -1, 3.0, "", None]
        rng.shuffle(pool)
        return pool[:C]
    if scheme == "empty":
        return []
    return None


def named_case(rng, idx):
    R, C = rng.choice([(2, 2), (2, 3), (3, 2), (3, 3), (3, 4), (4, 3), (4, 4), (3, 5), (5, 3), (5, 4), (4, 5), (5, 5), (1, 3), (6, 3)])
    matrix = dense_matrix(rng, R, C) if rng.random() < 0.5 else planted_matrix(rng, R, C)
    scheme = NAME_SCHEMES[idx % len(NAME_SCHEMES)]
    columns = names_for(rng, scheme, C)
    names = columns if columns else list(range(C))
    u = rng.random()
    if u < 0.12:
        secondary = None
    elif u < 0.2:
        secondary = []
    else:
        secondary = [n for n in names if rng.random() < (0.3 if u < 0.8 else 0.9)]
        if u > 0.95:
            secondary = list(names)  # all-secondary column set
        if rng.random() < 0.25:
            secondary += [rng.choice(["zz", 99, ("c", 9, 9), -7])]  # a name that is no column
        if rng.random() < 0.2 and secondary:
            secondary.append(secondary[0])  # repeated entry
        rng.shuffle(secondary)
        k = rng.random()
        hashable_distinct = len({repr(s) for s in secondary}) == len(secondary)
        if k < 0.25:
            secondary = tuple(secondary)
        elif k < 0.4 and secondary and hashable_distinct and len(set(secondary)) == len(secondary):
            secondary = set(secondary)
    if columns is not None and rng.random() < 0.3:
        columns = tuple(columns)
    form = ("list", "tuple", "rowtuple", "bool")[idx // len(NAME_SCHEMES) % 4]
    if scheme in ("none", "empty") and form == "list":
        form = "tuple"  # default names + plain lists is what the exhaustive scopes use
    return (matrix, form, None if columns is None else repr(columns), None if secondary is None else repr(secondary))


# ------------------------------------------------------------------ beyond the small scope: families and history mode
DEPTH_CAP = 850  # the code recurses once per selected row: judged instances never hold more pairwise disjoint eligible
#                  rows than this (interpreter limit 1000, left untouched; what happens beyond is recorded, not judged)
BLOCK_SHAPES = {"square": ((3, 6), (3, 5), 0.45), "tall": ((5, 9), (2, 3), 0.5), "wide": ((2, 4), (5, 8), 0.35)}
BASE_CFGS = [(True, None, None), (False, None, None), (True, 2, None)]


def max_disjoint(block, sec):
    """Largest number of pairwise disjoint eligible rows of a small block (bound on the search depth it can add)."""
    masks = [sum(1 << j for j, v in enumerate(row) if v) for row in block]
    prim = sum(1 << j for j in range(len(sec)) if not sec[j])
    masks = [m for m in masks if m & prim]
    best = 0
    stack = [(0, 0, 0)]
    while stack:
        k, used, n = stack.pop()
        best = max(best, n)
        for i in range(k, len(masks)):
            if not masks[i] & used:
                stack.append((i + 1, used | masks[i], n + 1))
    return best


def sample_block(rng, variant, with_sec, target):
    """A small random block with exactly `target` covers (rejection sampling against the subset enumeration)."""
    (r0, r1), (c0, c1), dens = BLOCK_SHAPES[variant]
    for _ in range(20000):
        r, c = rng.randint(r0, r1), rng.randint(c0, c1)
        sec = [bool(with_sec) and rng.random() < 0.2 for _ in range(c)]
        if all(sec):
            continue
        block = [[int(rng.random() < dens) for _ in range(c)] for _ in range(r)]
        if target and rng.random() < 0.7:  # plant a cover: a partition of the primary columns over the first rows
            prim = [j for j in range(c) if not sec[j]]
            rng.shuffle(prim)
            k = rng.randint(1, min(r, 3, len(prim)))
            for i in range(k):
                block[i] = [0] * c
            for t, j in enumerate(prim):
                block[t % k][j] = 1
            for j in range(c):
                if sec[j] and rng.random() < 0.3:
                    block[rng.randrange(k)][j] = 1
            rng.shuffle(block)
        if r > 2 and rng.random() < 0.25:
            block[rng.randrange(r)] = list(block[rng.randrange(r)])  # duplicate row
        if target == 0 and rng.random() < 0.7 and any(not sec[j] and not any(row[j] for row in block) for j in range(c)):
            continue  # mostly dead blocks without an empty primary column (the search has to find out)
        if len(O.all_covers(block, sec)) == target:
            return block, sec
    raise RuntimeError(f"no {variant} block with {target} covers found")


def name_scheme(rng, scheme, n_cols, sec_cols):
    """(columns, secondary) for the column positions in sec_cols under a naming scheme."""
    sec_cols = list(sec_cols)
    rng.shuffle(sec_cols)
    if scheme == "none":
        return None, sec_cols
    if scheme == "shift":
        names = [j + 1000 for j in range(n_cols)]
    else:
        lab = list(range(n_cols))
        rng.shuffle(lab)
        names = [f"n{k}" for k in lab]
    return names, [names[j] for j in sec_cols]


def gen_ladder(spec):
    """Block-structured instance: independent small blocks with a planted number of covers each, junk rows / columns
    (empty, secondary only) up to the wanted size, rows and columns shuffled. Returns a history record."""
    size, variant, total = spec["size"], spec["variant"], spec["total"]
    rng = random.Random(f"ladder/{spec['seed']}/{size}/{variant}/{spec['sec']}/{total}/{spec['names']}")
    special = [0] if total == 0 else []
    t = total
    for p in (2, 3):
        while t and t % p == 0:
            special.append(p)
            t //= p
    blocks, nr, nc, depth = [], 0, 0, 0
    want_r = size if variant in ("square", "tall") else 0
    want_c = size if variant in ("square", "wide") else 0
    while nr < want_r or nc < want_c or special:
        target = special.pop() if special else 1
        block, sec = sample_block(rng, variant, spec["sec"], target)
        d = max_disjoint(block, sec)
        if depth + d > DEPTH_CAP:
            break
        blocks.append((block, sec, target))
        nr, nc, depth = nr + len(block), nc + len(block[0]), depth + d
    expect = 1
    for _, _, target in blocks:
        expect *= target
    junk_r = max(0, want_r - nr) + rng.randint(0, 1 + size // 50)
    junk_c = max(0, want_c - nc) + rng.randint(0, 1 + size // 50)
    R, C = nr + junk_r, nc + junk_c
    row_perm, col_perm = list(range(R)), list(range(C))
    rng.shuffle(row_perm)
    rng.shuffle(col_perm)
    rows = [[] for _ in range(R)]
    sec_cols = []
    r0 = c0 = 0
    for block, sec, _ in blocks:
        for i, row in enumerate(block):
            rows[row_perm[r0 + i]] = [col_perm[c0 + j] for j, v in enumerate(row) if v]
        sec_cols += [col_perm[c0 + j] for j in range(len(sec)) if sec[j]]
        r0, c0 = r0 + len(block), c0 + len(block[0])
    junk_cols = [col_perm[nc + j] for j in range(junk_c)]  # all secondary; touched only by junk rows and by at most
    sec_cols += junk_cols  # one block row each (a secondary column with a single 1 constrains nothing)
    for j in junk_cols:
        if nr and rng.random() < 0.3:
            rows[row_perm[rng.randrange(nr)]].append(j)
    pool = sec_cols
    for i in range(junk_r):  # junk rows: empty or with 1s in secondary columns only (never eligible)
        if pool and rng.random() < 0.6:
            rows[row_perm[nr + i]] = rng.sample(pool, min(len(pool), rng.randint(1, 3)))
    rows = [sorted(r) for r in rows]
    columns, secondary = name_scheme(rng, spec["names"], C, sec_cols)
    H = {"kind": "history", "family": "ladder", "spec": spec, "n_cols": C, "rows": rows, "form": "list",
         "columns": None if columns is None else repr(columns), "secondary": repr(secondary) if secondary or rng.random() < 0.5 else None,
         "expect_total": expect, "depth_bound": depth, "blocks": len(blocks)}
    H["steps"] = make_steps(rng, H, spec["steps"])
    return H


def long_matrix(kind, n, m=0):
    """(dense rows, positions of the secondary columns, number of covers known from combinatorics)."""
    if kind == "queens":
        C = 2 * n + 2 * (2 * n - 1)
        rows = []
        for r in range(n):
            for c in range(n):
                row = [0] * C
                row[r] = row[n + c] = row[2 * n + r + c] = row[4 * n - 1 + (r - c + n - 1)] = 1
                rows.append(row)
        return rows, list(range(2 * n, C)), O.QUEENS[n]
    if kind == "matchings":  # perfect matchings of the complete graph on n vertices
        rows = []
        for a, b in itertools.combinations(range(n), 2):
            row = [0] * n
            row[a] = row[b] = 1
            rows.append(row)
        return rows, [], O.perfect_matchings_complete(n)
    if kind == "partitions":  # every non-empty subset of n elements is a row: covers = set partitions
        return [[(s >> j) & 1 for j in range(n)] for s in range(1, 1 << n)], [], O.bell(n)
    if kind == "domino":  # n x m board
        rows = []
        for r in range(n):
            for c in range(m):
                for rr, cc in ((r, c + 1), (r + 1, c)):
                    if rr < n and cc < m:
                        row = [0] * (n * m)
                        row[r * m + c] = row[rr * m + cc] = 1
                        rows.append(row)
        return rows, [], O.domino_tilings(n, m)
    raise ValueError(kind)


def gen_long(spec):
    rows, sec_cols, expect = long_matrix(spec["shape"], spec["n"], spec.get("m", 0))
    rng = random.Random(f"long/{spec['seed']}/{spec['shape']}/{spec['n']}/{spec.get('m', 0)}/{spec['names']}")
    perm = list(range(len(rows)))
    if spec["seed"]:
        rng.shuffle(perm)  # seed 0 keeps the textbook row order
    rows = [rows[i] for i in perm]
    C = len(rows[0])
    columns, secondary = name_scheme(rng, spec["names"], C, sec_cols)
    H = {"kind": "history", "family": "long", "spec": spec, "n_cols": C, "rows": O.sparse_rows(rows), "form": "list",
         "columns": None if columns is None else repr(columns), "secondary": repr(secondary) if secondary else None,
         "expect_total": expect}
    H["steps"] = make_steps(rng, H, spec["steps"])
    return H


def gen_small(spec):
    rng = random.Random(f"small/{spec['seed']}")
    R, C = rng.choice([(2, 3), (3, 3), (3, 4), (4, 3), (4, 4), (5, 3), (5, 4), (4, 5), (6, 4), (5, 5), (6, 5)])
    matrix = dense_matrix(rng, R, C) if rng.random() < 0.5 else planted_matrix(rng, R, C)
    sec_cols = [j for j in range(C) if rng.random() < 0.3]
    columns, secondary = name_scheme(rng, ("none", "str", "shift")[spec["seed"] % 3], C, sec_cols)
    u = rng.random()
    if secondary is not None and u < 0.2:
        secondary = tuple(secondary)
    if columns is not None and u > 0.8:
        columns = tuple(columns)
    H = {"kind": "history", "family": "small", "spec": spec, "n_cols": C, "rows": O.sparse_rows(matrix),
         "form": ("list", "list", "rowtuple", "tuple", "bool")[spec["seed"] // 3 % 5],
         "columns": None if columns is None else repr(columns),
         "secondary": repr(secondary) if secondary or rng.random() < 0.5 else None}
    H["steps"] = make_steps(rng, H, spec["steps"])
    return H


GEN = {"ladder": gen_ladder, "long": gen_long, "small": gen_small}


def make_steps(rng, H, k):
    """k seeded edits for a history; positions only (what an edit does to names / flags is decided when it is applied
    to the state at that moment). The first edit exchanges the names of a secondary and a primary column whenever the
    instance has both, so every history with secondary columns holds a relabelling that changes the problem."""
    R, C, rows = len(H["rows"]), H["n_cols"], H["rows"]
    flags = O.secondary_flags(C, lit(H["columns"]), lit(H["secondary"]))
    sec = [j for j in range(C) if flags[j]]
    prim = [j for j in range(C) if not flags[j]]
    steps = []
    for n in range(k):
        u = rng.random()
        if n == 0 and sec and prim:
            busy = [j for j in sec if any(j in r for r in rows[:400])] or sec
            steps.append(["swap-names", rng.choice(prim), rng.choice(busy)])
        elif u < 0.16:
            steps.append(["swap-names", rng.randrange(C), rng.randrange(C)])
        elif u < 0.30:
            steps.append(["permute-names", rng.randrange(1 << 30)])
        elif u < 0.42:
            steps.append(["sec-remove", rng.randrange(1 << 30)])
        elif u < 0.54:
            steps.append(["sec-add", rng.randrange(C)])
        elif u < 0.70:
            i = rng.randrange(R)
            near = rows[i] + rows[rng.randrange(R)]
            steps.append(["flip", i, rng.choice(near) if near and rng.random() < 0.8 else rng.randrange(C)])
        elif u < 0.80:
            base = list(rows[rng.randrange(R)])
            if base and rng.random() < 0.5:
                base.remove(rng.choice(base))
            steps.append(["append-row", sorted(base)])
        elif u < 0.86:
            steps.append(["pop-row"])
        elif u < 0.93:
            steps.append(["restore-names"])
        else:
            steps.append(["repeat"])
    return steps


def start_state(H):
    C = H["n_cols"]
    dense = []
    for cols in H["rows"]:
        row = [0] * C
        for j in cols:
            row[j] = 1
        dense.append(row)
    return {"matrix": in_form(dense, H["form"]), "columns": lit(H["columns"]), "secondary": lit(H["secondary"]),
            "form": H["form"], "n_cols": C, "names0": lit(H["columns"])}


def _put(obj, fn):
    """Edit a list in place; rebuild a tuple (a new object is all an immutable input allows)."""
    if isinstance(obj, list):
        fn(obj)
        return obj
    tmp = list(obj)
    fn(tmp)
    return tuple(tmp)


def apply_step(st, step):
    """One edit on the SAME objects wherever they are mutable. Returns a sentence for the log."""
    op = step[0]
    C = st["n_cols"]
    m = st["matrix"]
    if op in ("start", "repeat"):
        return op
    if op == "swap-names":
        a, b = step[1], step[2]
        if st["columns"] is None:
            st["columns"] = list(range(C))  # default names written out, then two of them exchanged

        def sw(x):
            x[a], x[b] = x[b], x[a]
        st["columns"] = _put(st["columns"], sw)
        return f"names of columns {a} and {b} exchanged"
    if op == "permute-names":
        if st["columns"] is None:
            return "no names to permute"
        flags = O.secondary_flags(C, st["columns"], st["secondary"])
        r = random.Random(step[1])
        names = list(st["columns"])
        for want in (True, False):
            pos = [j for j in range(C) if flags[j] == want]
            new = [names[j] for j in pos]
            r.shuffle(new)
            for j, nm in zip(pos, new):
                names[j] = nm

        def pm(x):
            x[:] = names
        st["columns"] = _put(st["columns"], pm)
        return "names permuted among the secondary and among the primary columns (same problem)"
    if op == "restore-names":
        if st["names0"] is None:
            st["columns"] = None
        elif st["columns"] is not None:
            st["columns"] = _put(st["columns"], lambda x: x.__setitem__(slice(None), list(st["names0"])))
        return "original names restored"
    if op == "sec-remove":
        if not st["secondary"]:
            return "secondary empty"
        k = step[1] % len(st["secondary"])
        st["secondary"] = _put(st["secondary"], lambda x: x.pop(k))
        return f"entry {k} removed from secondary"
    if op == "sec-add":
        nm = (st["columns"] if st["columns"] is not None else range(C))[step[1]]
        if st["secondary"] is None:
            st["secondary"] = [nm]
        else:
            st["secondary"] = _put(st["secondary"], lambda x: x.append(nm))
        return f"name {nm!r} of column {step[1]} added to secondary"
    if op == "flip":
        i, j = step[1] % len(m), step[2]
        row = m[i]
        v = (not row[j]) if st["form"] == "bool" else 1 - row[j]
        if isinstance(row, list):
            row[j] = v
        else:
            new = tuple(v if k == j else x for k, x in enumerate(row))
            st["matrix"] = _put(m, lambda x: x.__setitem__(i, new))
        return f"cell ({i},{j}) flipped to {int(v)}"
    if op == "append-row":
        row = [1 if j in step[1] else 0 for j in range(C)]
        if st["form"] == "bool":
            row = [bool(v) for v in row]
        if st["form"] in ("tuple", "rowtuple"):
            row = tuple(row)
        st["matrix"] = _put(m, lambda x: x.append(row))
        return f"row {step[1]} appended"
    if op == "pop-row":
        if len(m) <= 1:
            return "single row kept"
        st["matrix"] = _put(m, lambda x: x.pop())
        return "last row removed"
    raise ValueError(step)


def digest_result(how, r):
    if how != "ok":
        return [how, str(r)]
    rep, st, obj = observe(r)
    import hashlib
    return ["ok", st, obj, hashlib.sha1(rep.encode()).hexdigest(), rep if len(rep) <= 160 else rep[:160] + "..."]


def hist_case(H, step, cfg):
    c = {k: H[k] for k in ("kind", "family", "spec", "n_cols", "rows", "form", "columns", "secondary", "steps")}
    c.update(fail_step=step, find_all=cfg[0], max_solutions=cfg[1], max_iter=cfg[2])
    return c


def run_history(D, H, acc, upto=None, log=None):
    """Play one history in this process. Every step: edit the objects, ask the oracle about the input as it is now,
    judge every configuration (each judged call is made twice). Returns the (final state, digests) for the fresh-
    process comparison, or None if the history was cut short."""
    big = H["family"] != "small"
    st = start_state(H)
    steps = [["start"]] + list(H["steps"])
    if upto is not None:
        steps = steps[: upto + 1]
    cfgs = [tuple(c) for c in H.get("cfgs") or BASE_CFGS]
    last = None
    for k, step in enumerate(steps):
        what = apply_step(st, step)
        m = st["matrix"]
        plain = m if st["form"] == "list" else [[int(v) for v in r] for r in m]
        R, C = len(plain), st["n_cols"]
        flags = O.secondary_flags(C, st["columns"], st["secondary"])
        sp = O.sparse_rows(plain) if big else None
        try:
            truth = Truth(O.covers_by_parts(sp, flags)) if big else Truth([list(O.all_covers(plain, flags))])
        except O.OracleLimit as e:
            acc["oracle_limit"].append(f"{H['family']} {H['spec']} step {k}: {e}")
            return None
        if k == 0 and H.get("expect_total") is not None and truth.total != H["expect_total"]:
            acc["defects"].append(f"{H['family']} {H['spec']}: oracle counts {truth.total} covers, construction says {H['expect_total']}")
        nontrivial = any(not f for f in flags) and any(any(not flags[j] for j in cols) for cols in (sp if big else O.sparse_rows(plain)))
        todo = list(cfgs)
        if k == 0:  # aim max_iter at the code's own iteration count (hint only, never an oracle)
            for fa in (True, False):
                how, r = call_solver(D, m, st["columns"], st["secondary"], (fa, None, None))
                n = getattr(r, "iterations", None) if how == "ok" else None
                if isinstance(n, int) and n >= 2:
                    todo += [(fa, None, n - 1), (fa, None, n)]
        if log:
            log(f"step {k}: {what}; {R} rows x {C} columns, {sum(flags)} secondary, oracle: {truth.total} cover(s)")
        last = []
        for cfg in todo:
            bad, hang, r = judge(D, plain, st["form"], st["columns"], st["secondary"], cfg, flags, truth, m_arg=m, sp=sp,
                                 defects=acc["defects"])
            acc["n_eval"] += 1
            acc["n_nontrivial"] += bool(nontrivial)
            acc["hist_calls"][H["family"]] = acc["hist_calls"].get(H["family"], 0) + 1
            if hang:  # nothing that follows in this process would be a fair question any more: the history ends here
                acc["hangs"].append({"family": H["family"], "spec": H["spec"], "step": k, "cfg": list(cfg)})
                return None
            for ob, detail in bad:
                acc["viol"].append((ob, hist_case(H, k, cfg), f"[history step {k}: {what}] {detail}"))
            if log:
                log(f"   find_all={cfg[0]} max_solutions={cfg[1]} max_iter={cfg[2]} -> "
                    f"{digest_result('ok', r)[1:3] + [digest_result('ok', r)[4]] if r is not None else ('hang' if hang else 'exception')}")
                for ob, detail in bad:
                    log(f"   VIOLATED {ob} :: {detail}")
            if r is not None:
                it = getattr(r, "iterations", 0) or 0
                for lim in (1000, 10_000, 100_000, 1_000_000):
                    if isinstance(it, int) and it >= lim:
                        acc["iters_ge"][str(lim)] = acc["iters_ge"].get(str(lim), 0) + 1
                nsol = len(r.solution) if cfg[0] and isinstance(getattr(r, "solution", None), list) else 0
                acc["max_listed"] = max(acc["max_listed"], nsol)
                if getattr(getattr(r, "status", None), "name", "") == "MAX_ITER":
                    acc["cut_by_max_iter"] += 1
                last.append((cfg, digest_result("ok", r)))
        acc["max_dims"] = max(acc["max_dims"], [R, C])
        acc["hist_steps"] += 1
    acc["histories"] += 1
    final = {"n_cols": st["n_cols"], "rows": O.sparse_rows(st["matrix"]), "form": st["form"],
             "columns": None if st["columns"] is None else repr(st["columns"]),
             "secondary": None if st["secondary"] is None else repr(st["secondary"]), "timeout": TIMEOUT[0]}
    return final, last


def fresh_answers(jobs):
    """jobs: [(final state, [cfg, ...])]. One new interpreter; inside it every call runs in a forked child of the
    still untouched parent, so each answer comes from a process that has made no other solver call."""
    if not jobs:
        return []
    from vf.core import VERIF
    payload = json.dumps([{"state": s, "cfgs": [list(c) for c in cfgs]} for s, cfgs in jobs])
    code = f"import sys; sys.path.insert(0, {VERIF!r}); import checks.C07 as m; m.fresh_main()"
    p = subprocess.run([sys.executable, "-c", code], input=payload, capture_output=True, text=True, cwd=VERIF,
                       timeout=3600)
    if p.returncode != 0:
        raise RuntimeError(f"fresh interpreter failed ({p.returncode}): {p.stderr[-400:]}")
    return json.loads(p.stdout)


def fresh_main():
    use_repo()
    import solvor.dlx as D
    out = []
    for job in json.load(sys.stdin):
        s = job["state"]
        res = []
        for cfg in job["cfgs"]:
            rd, wr = os.pipe()
            pid = os.fork()
            if pid == 0:
                try:
                    os.close(rd)
                    TIMEOUT[0] = s.get("timeout", CALL_TIMEOUT)
                    st = start_state({"rows": s["rows"], "n_cols": s["n_cols"], "form": s["form"], "columns": s["columns"],
                                      "secondary": s["secondary"]})
                    how, r = call_solver(D, st["matrix"], st["columns"], st["secondary"], tuple(cfg))
                    with os.fdopen(wr, "w") as f:
                        json.dump(digest_result(how, r), f)
                finally:
                    os._exit(0)
            os.close(wr)
            with os.fdopen(rd) as f:
                txt = f.read()
            os.waitpid(pid, 0)
            res.append(json.loads(txt) if txt else ["died", ""])
        out.append(res)
    json.dump(out, sys.stdout)


def work_histories(task):
    """Pool worker for history tasks: task = dict(kind='hist', specs=[(family, spec), ...], timeout)."""
    use_repo()
    import solvor.dlx as D
    acc = new_acc()
    t0 = time.process_time()
    TIMEOUT[0] = task.get("timeout", CALL_TIMEOUT)
    pending = []
    try:
        for family, spec in task["specs"]:
            if HANGS[0] >= 8:
                acc["skipped_task"] = 1
                break
            H = GEN[family](spec)
            H["cfgs"] = task.get("cfgs") or BASE_CFGS
            got = run_history(D, H, acc)
            if got is not None and got[1]:
                pending.append((H, got[0], got[1]))
            if not acc["samples"]:
                acc["samples"].append({"kind": "history", "family": family, "spec": spec, "rows x columns": [len(H["rows"]), H["n_cols"]],
                                       "steps": H["steps"]})
        try:
            if task["specs"][0][0] == "small":  # many tiny histories: one configuration each goes to the fresh process
                pending = [(H, final, last[:1]) for H, final, last in pending]
            answers = fresh_answers([(final, [c for c, _ in last]) for _, final, last in pending])
        except Exception as e:  # noqa: BLE001
            acc["defects"].append(f"fresh-process comparison not run: {e}")
            answers = []
        for (H, final, last), res in zip(pending, answers):
            for (cfg, here), there in zip(last, res):
                acc["fresh_compared"] += 1
                if there[0] == "hang":
                    continue
                if here[:4] != there[:4]:
                    acc["viol"].append((P + "ensures:same-answer-in-a-fresh-process", hist_case(H, len(H["steps"]), cfg),
                                        f"after the history: {here[1:3] + here[4:]}; the same call as the first call of a new process: {there[1:3] + there[4:]}"))
    finally:
        TIMEOUT[0] = CALL_TIMEOUT
    acc["cpu"] = time.process_time() - t0
    return acc


def work_any(task):
    return work_histories(task) if task["kind"] == "hist" else work(task)


def chunks(seq, n):
    return [seq[i:i + n] for i in range(0, len(seq), n)]


def plan(ctx: Ctx):
    rng = random.Random(ctx.seed)
    tasks, scopes = [], []

    def exh(R, C, level, sec="all"):
        total = 1 << (R * C)
        step = max(1, min(total, 1024 if level == "lite" else 96 if level == "mid" else 16))
        for lo in range(0, total, step):
            tasks.append({"kind": "codes", "R": R, "C": C, "lo": lo, "hi": min(total, lo + step), "level": level, "sec": sec})
        scopes.append(dict(name=f"all {R}x{C} 0/1 matrices", matrices=total, secondary_subsets=(1 << C) if sec == "all" else "none + 2 seeded subsets per matrix",
                           config_level=level, exhaustive=(sec == "all")))

    def slice_(R, C, n, level="mid"):
        codes = rng.sample(range(1 << (R * C)), n)
        for ch in chunks(codes, 50):
            tasks.append({"kind": "codes", "R": R, "C": C, "codes": ch, "level": level, "sec": "all"})
        scopes.append(dict(name=f"seeded slice of {R}x{C} 0/1 matrices (without replacement)", matrices=n,
                           secondary_subsets=1 << C, config_level=level, exhaustive=False))

    small = [(R, C) for R in range(0, 4) for C in range(0, 4)] + [(1, 4), (4, 1), (4, 2), (1, 5), (5, 1)]
    for R, C in small:
        if R == 0 and C > 0:
            continue  # a 0-row matrix has no width in the list-of-lists encoding
        exh(R, C, "full")
    exh(2, 4, "mid")
    exh(5, 2, "mid")
    if ctx.quick:
        slice_(2, 5, 300)
        slice_(3, 4, 1200)
        slice_(4, 3, 2000)
        slice_(4, 4, 2000)
        dense_shapes = [(5, 4), (4, 5), (5, 5), (6, 4), (6, 5), (7, 4), (7, 5), (8, 4), (8, 5)]
        n_dense, n_named = 20000, 7000
    else:
        for R, C in ((2, 5), (3, 4), (4, 3), (4, 4), (3, 5), (5, 3)):
            exh(R, C, "mid")
        exh(5, 4, "lite", sec="some")
        exh(4, 5, "lite", sec="some")
        dense_shapes = [(5, 5), (6, 4), (6, 5), (5, 6), (7, 4), (6, 6), (7, 5), (8, 4), (8, 5), (8, 6)]
        n_dense, n_named = 120000, 40000
    items, seen = [], set()
    for k in range(n_dense):
        R, C = dense_shapes[k % len(dense_shapes)]
        m = planted_matrix(rng, R, C) if k % 5 == 0 else dense_matrix(rng, R, C, (3, 8, 30, 36, 16, 7) if k % 2 else (1, 4, 40, 45, 10, 0))
        code = sum(v << i for i, v in enumerate(itertools.chain.from_iterable(m)))
        for mask in sec_masks(C, code, "some"):
            it = (m, "list", None, None if mask == 0 else repr([j for j in range(C) if mask >> j & 1]))
            if repr(it) not in seen:
                seen.add(repr(it))
                items.append(it)
    for ch in chunks(items, 150):
        tasks.append({"kind": "cases", "items": ch, "level": "lite"})
    scopes.append(dict(name="seeded dense/planted matrices (rows mostly with 2..C ones, several with 3+, duplicate rows)",
                       shapes=[f"{r}x{c}" for r, c in dense_shapes], matrices=n_dense, instances=len(items),
                       secondary="none + 2 seeded subsets per matrix", config_level="lite", exhaustive=False))
    named = []
    for k in range(n_named):
        it = named_case(rng, k)
        if repr(it) not in seen:
            seen.add(repr(it))
            named.append(it)
    for ch in chunks(named, 40):
        tasks.append({"kind": "cases", "items": ch, "level": "mid"})
    scopes.append(dict(name="seeded named-column / representation cases", instances=len(named), name_schemes=list(NAME_SCHEMES),
                       secondary_forms=["None", "[]", "list", "tuple", "set", "unknown names", "repeated names", "all columns"],
                       matrix_forms=["list", "tuple of tuples", "list of tuples", "bool entries"], config_level="mid", exhaustive=False))
    tasks = plan_histories(ctx, scopes) + tasks  # the long single-process sequences first
    return tasks, scopes


LADDER_SIZES = [10, 12, 33, 65, 129, 140, 260, 520, 600, 1000, 1030, 1100, 1300]
LADDER_KINDS = [("square", False, 12, "none"), ("square", True, 8, "str"), ("square", True, 1, "none"),
                ("square", False, 0, "shift"), ("tall", True, 2, "none"), ("wide", True, 3, "str"),
                # thorough only from here
                ("square", True, 0, "str"), ("square", False, 1, "str"), ("tall", False, 6, "shift"), ("wide", False, 1, "none"),
                ("tall", True, 0, "str"), ("wide", True, 36, "shift")]


def plan_histories(ctx, scopes):
    q = ctx.quick
    tasks = []
    # --- long searches (one part, 10^3..10^6 iterations), each the start of a history
    shapes = [("queens", n, 0) for n in ((6, 7, 8, 9, 10, 11) if q else (6, 7, 8, 9, 10, 11, 12))] + [("matchings", n, 0) for n in (8, 10, 12, 14)] + \
             [("partitions", n, 0) for n in (6, 7, 8, 9)] + [("domino", 2, 10), ("domino", 4, 4), ("domino", 4, 6), ("domino", 6, 6), ("domino", 4, 8)]
    long_specs = []
    for shape, n, m in shapes:
        for seed, names in ([(0, "none")] + ([(1, "str")] if (shape, n) in (("queens", 8), ("queens", 10), ("matchings", 12), ("partitions", 9)) else [])
                            if q else [(0, "none"), (1, "str"), (2, "shift"), (3, "none"), (4, "str")]):
            long_specs.append({"shape": shape, "n": n, "m": m, "seed": seed, "names": names,
                               "steps": (1 if (shape, n) == ("matchings", 14) else 4) if q else 6})
    if not q:
        for shape, n, m in (("queens", 13, 0), ("partitions", 10, 0), ("domino", 6, 8)):
            for seed, names in ((0, "none"), (1, "str")) if shape != "queens" else ((1, "str"),):
                long_specs.append({"shape": shape, "n": n, "m": m, "seed": seed, "names": names, "steps": 2 if shape != "queens" else 1})
    heavy = {("queens", 13): 9, ("queens", 12): 5, ("domino", 6): 4, ("partitions", 10): 4, ("matchings", 14): 3, ("queens", 11): 2}
    long_specs.sort(key=lambda sp: -heavy.get((sp["shape"], sp["n"]), 0))
    for sp in long_specs:
        tasks.append({"kind": "hist", "level": "hist", "specs": [("long", sp)], "timeout": 10.0 if q else 120.0,
                      "cfgs": BASE_CFGS + [(True, 100, None)]})
    scopes.append(dict(name="long searches as history starts: n-queens 6..11 (12, 13 thorough; diagonals secondary), perfect matchings of "
                            "K8..K14, set partitions of 6..9 (10) elements, domino tilings 2x10..6x6 (6x8)", histories=len(long_specs),
                       steps_after_start=sorted({sp["steps"] for sp in long_specs}), oracle="covers_by_parts (bit-mask backtracking) "
                       "cross-checked with the closed-form count of the start instance", exhaustive=False))
    # --- size ladder
    sizes = LADDER_SIZES + ([] if q else [2000, 2600])
    kinds = LADDER_KINDS[:6] if q else LADDER_KINDS
    lad = []
    for size in sizes:
        for variant, sec, total, names in kinds:
            for seed in ((0,) if q else (0, 1, 2) if size <= 1300 else (0,)):
                lad.append({"size": size, "variant": variant, "sec": sec, "total": total, "names": names, "seed": seed,
                            "steps": (3 if size < 500 else 2) if q else (5 if size < 500 else 3)})
    big = [sp for sp in lad if sp["size"] >= 500]
    rest = [sp for sp in lad if sp["size"] < 500]
    big.sort(key=lambda sp: -sp["size"])
    for sp in big:
        tasks.append({"kind": "hist", "level": "hist", "specs": [("ladder", sp)], "timeout": 10.0 if q else 60.0})
    for ch in chunks(rest, 3):
        tasks.append({"kind": "hist", "level": "hist", "specs": [("ladder", sp) for sp in ch], "timeout": 10.0})
    scopes.append(dict(name="size ladder: block-structured instances (independent blocks <= 9x8 with a planted number of covers, junk rows / "
                            "secondary columns, rows and columns shuffled), each the start of a history", sizes=sizes,
                       variants=[f"{v}{'+secondary' if s else ''}/{t} covers/names={n}" for v, s, t, n in kinds], histories=len(lad),
                       meaning_of_size="square: rows >= size and columns >= size; tall: rows >= size; wide: columns >= size",
                       oracle="union-find split into independent parts + enumeration per part; product cross-checked with the planted counts",
                       exhaustive=False))
    # --- small random histories against the subset enumeration
    n_small = 4000 if q else 40000
    small = [{"seed": k, "steps": 4} for k in range(n_small)]
    for ch in chunks(small, 250):
        tasks.append({"kind": "hist", "level": "hist", "specs": [("small", sp) for sp in ch], "cfgs": BASE_CFGS + [(False, None, 3)]})
    scopes.append(dict(name="small random histories (2x3..6x5, all matrix representations, names none/str/int), 4 in-place edits each, "
                            "subset-enumeration oracle at every step", histories=n_small, exhaustive=False))
    return tasks


class Tally(set):
    """Key set plus a tally of non-trivial cases counted in the workers. The cases are distinct by construction, so no
    key per case is kept (the thorough tier has > 10^7 of them): enumerated scopes visit each (shape, matrix code,
    secondary mask, configuration) once and the configuration list has no repeats; seeded instances are de-duplicated
    by their full text in plan(); seeded dense shapes are never shapes that the same tier enumerates; named /
    representation cases never use (default names, plain lists), which is what all other scopes use."""
    by_construction = 0

    def __len__(self):
        return set.__len__(self) + self.by_construction


def zero_row_notes(D):
    """A 0-row matrix has no width in the list-of-lists encoding; what the code does with named columns is recorded,
    not judged (whether `columns=` defines columns of an empty matrix is not settled by the property statement)."""
    how, r = call_solver(D, [], ["A"], None, (False, None, None))
    return f"solve_exact_cover([], columns=['A']) -> {observe(r) if how == 'ok' else (how, r)} (0 rows, one named primary column: recorded, not judged)"


def oracle_selfcheck(ctx):
    """The second-generation oracle against the subset enumeration, the sparse checker against the dense one, the
    closed-form counts against the enumeration (any disagreement is a checker defect, exit 3)."""
    rng = random.Random(ctx.seed + 2)
    for k in range(400):
        R, C = rng.randint(1, 7), rng.randint(1, 6)
        m = dense_matrix(rng, R, C) if k % 2 else [[rng.randint(0, 1) for _ in range(C)] for _ in range(R)]
        fl = [rng.random() < 0.3 for _ in range(C)]
        sp = O.sparse_rows(m)
        want = O.all_covers(m, fl)
        T = Truth(O.covers_by_parts(sp, fl))
        got = {frozenset().union(*combo) for combo in itertools.product(*T.parts)} if T.exists else set()
        if got != want or T.total != len(want) or any(not T.contains(c) for c in want) or T.missing(want) is not None or \
                (want and T.missing(set(list(want)[1:])) is None):
            ctx.defects.append(f"covers_by_parts / Truth disagree with the subset enumeration on {m} {fl}")
        for _ in range(6):
            sel = rng.sample(range(R), rng.randint(0, R))
            if O.why_not_cover(m, fl, sel) != O.why_not_cover_sparse(sp, fl, sel):
                ctx.defects.append(f"why_not_cover_sparse differs from why_not_cover on {m} {fl} {sel}")
    for kind, n, mm in [("queens", n, 0) for n in (4, 5, 6, 7, 8)] + [("matchings", n, 0) for n in (4, 6, 7, 8)] + \
                       [("partitions", n, 0) for n in (3, 5, 7)] + [("domino", 2, 5), ("domino", 3, 4), ("domino", 4, 4), ("domino", 3, 3)]:
        rows, sec, expect = long_matrix(kind, n, mm)
        fl = [j in set(sec) for j in range(len(rows[0]))]
        T = Truth(O.covers_by_parts(O.sparse_rows(rows), fl))
        if T.total != expect:
            ctx.defects.append(f"closed-form count {expect} != enumeration {T.total} for {kind} {n} {mm}")


def deep_probe(D):
    """Recorded, not judged: identity matrices need one selected row per column, i.e. one Python frame per column."""
    out = []
    for n in (900, 1200):
        how, r = guarded(D.solve_exact_cover, [[1 if i == j else 0 for j in range(n)] for i in range(n)])
        out.append(f"identity {n}x{n}: " + (f"{observe(r)[1]}, {len(r.solution or ())} rows selected" if how == "ok" else f"{how} {r}"))
    return "; ".join(out)


def run(ctx: Ctx):
    use_repo()
    import solvor.dlx as D
    tasks, scopes = plan(ctx)
    # oracle self-check: the two enumerations and the single-selection checker agree on a seeded sample
    rng = random.Random(ctx.seed + 1)
    for _ in range(300):
        R, C = rng.randint(0, 5), rng.randint(1, 5)
        m = [[rng.randint(0, 1) for _ in range(C)] for _ in range(R)]
        fl = [rng.random() < 0.3 for _ in range(C)]
        if O.all_covers(m, fl) != O.all_covers_naive(m, fl):
            ctx.defects.append(f"oracle disagreement on {m} {fl}")
    oracle_selfcheck(ctx)
    results = pmap(work_any, tasks, chunksize=1)
    tally = Tally(ctx.nontrivial)
    ctx.nontrivial = tally
    agg = new_acc()
    n_eval = 0
    found = {}
    skipped = 0
    n_hist_samples = {"ladder": 0, "long": 0, "small": 0}
    for t, acc in zip(tasks, results):
        n_eval += acc["n_eval"]
        tally.by_construction += acc["n_nontrivial"]
        for k in ("pairs", "pairs_feasible", "pairs_multi", "cut_by_max_iter", "link_evals", "links_skipped", "restore_evals",
                  "hist_steps", "histories", "fresh_compared"):
            agg[k] += acc[k]
        for k in ("hist_calls", "iters_ge"):
            for kk, v in acc[k].items():
                agg[k][kk] = agg[k].get(kk, 0) + v
        agg["max_covers"] = max(agg["max_covers"], acc["max_covers"])
        agg["max_listed"] = max(agg["max_listed"], acc["max_listed"])
        agg["max_dims"] = max(agg["max_dims"], acc["max_dims"])
        ctx.defects += acc["defects"][:5]
        for why in acc["oracle_limit"]:
            ctx.undecided.append({"obligation": P + "ensures:find_all-complete", "why": "oracle limit: " + why})
        for ob, case, detail in acc["viol"]:
            found.setdefault(ob, []).append((case_size(case), case, detail))
        for case in acc["hangs"]:
            ctx.undecided.append({"obligation": P + "returns", "why": f"no answer within {t.get('timeout', CALL_TIMEOUT)}s (CPU) on {short(case, 400)}"})
        skipped += acc.get("skipped_task", 0)
        if acc["samples"] and len(ctx.samples) < 12 and (t["kind"] == "cases" or t.get("R", 0) >= 3 or
                                                         (t["kind"] == "hist" and n_hist_samples[t["specs"][0][0]] < 2)):
            if t["kind"] == "hist":
                n_hist_samples[t["specs"][0][0]] += 1
            ctx.count(0, (), acc["samples"][:1])
    ctx.count(n_eval + agg["link_evals"] + agg["restore_evals"], ())
    if skipped:
        ctx.undecided.append({"obligation": P + "returns", "why": f"{skipped} of {len(tasks)} work packages skipped after repeated "
                              f"time-outs of the solver (worker processes stop waiting after 8 hangs)"})
    # report the smallest few failing cases of every obligation (the driver prints two per obligation and only looks
    # at the first 40 entries); the full tally per obligation goes into the evidence notes
    for ob in sorted(found):
        for _, case, detail in sorted(found[ob], key=lambda x: x[0])[:3]:
            ctx.violation(ob, case, detail)
    for s in scopes:
        ctx.scope(s.pop("name"), **s)
    ctx.exhaustive = False
    ctx.notes["c07"] = {
        "failing cases per obligation (all, before the cut to 3 reported each)": {ob: len(v) for ob, v in sorted(found.items())},
        "instances (matrix, names, secondary)": agg["pairs"], "with a cover": agg["pairs_feasible"],
        "with several covers": agg["pairs_multi"], "largest number of covers": agg["max_covers"],
        "judged calls ending MAX_ITER": agg["cut_by_max_iter"], "top-level contract evaluations": n_eval,
        "cover/uncover sequence evaluations": agg["link_evals"], "search-restores evaluations": agg["restore_evals"],
        "inner contracts": ("evaluated on solvor.dlx._build_links/_cover/_uncover" if helpers(D) else
                            "SKIPPED: solvor.dlx no longer has _build_links/_cover/_uncover under these names"),
        "inner contract instances skipped (helper shape changed)": agg["links_skipped"],
        "zero-row matrix with named columns": zero_row_notes(D),
        "histories played": agg["histories"], "history steps (start + edits)": agg["hist_steps"],
        "judged calls inside histories, per family": agg["hist_calls"],
        "judged history calls whose search took at least N iterations": agg["iters_ge"],
        "largest number of selections in one find_all answer": agg["max_listed"],
        "largest matrix judged (rows, columns)": agg["max_dims"],
        "answers compared with a fresh interpreter process": agg["fresh_compared"],
        "selections deeper than the interpreter's recursion limit (recorded, not judged)": deep_probe(D),
    }
    ctx.rule = ("case = (matrix, its representation, column names, secondary, find_all, max_solutions, max_iter); every case is one "
                "evaluation of the whole top-level contract (two solver calls, frame + determinism + every ensures clause against the "
                "subset-enumeration oracle). Enumerated scopes visit every matrix of the shape x every secondary subset x the "
                "configuration list of the level (full: 7 modes x max_iter in {default,5,0,1,2,3,2^R} + the boundary N-1/N of the "
                "code's own iteration count; mid: 4 modes x {default,5} + boundary; lite: find_all, first, find_all at boundary N). "
                "Seeded scopes are de-duplicated by their full text; all cases are distinct by construction (see Tally). non-trivial = at least one primary column and at least one row "
                "with a 1 in a primary column (the search has to cover something); distinct = different case tuple. The evaluation "
                "count also includes the inner-contract evaluations (cover/uncover sequences, search-restores runs). "
                "History cases = (family, generator spec, step, configuration): a start instance (size ladder: seeded blocks with a "
                "planted number of covers; long search: queens / matchings / partitions / dominoes; small: seeded random) followed by "
                "seeded in-place edits of the same matrix / columns / secondary objects (names of two columns exchanged - the first edit "
                "always exchanges a secondary with a primary name when both exist -, names permuted, secondary entry removed / added, "
                "cell flipped, row appended / removed, names restored, plain repeat); at every step the oracle is asked about the input "
                "as it is then and every configuration (find_all, first, max_solutions=2 [,100 / max_iter=3]; at the start also max_iter "
                "N-1 and N for the code's own iteration count N) is one evaluation of the same contract; the answers of the last step "
                "are compared with those of a fresh interpreter process. Distinct by construction: one history per spec. Numeric "
                "fine-structure (dyadic gaps, thresholds like 1e-9) does not apply: the inputs are 0/1 matrices and names.")
    ctx.assumptions += [
        "bounded: matrices up to the listed shapes only; no claim beyond them (ladder / long-search instances are seeded samples "
        "of structured families, not an enumeration)",
        f"judged instances never hold more than {DEPTH_CAP} pairwise disjoint eligible rows: solve_exact_cover recurses once per "
        "selected row and raises RecursionError beyond the interpreter's limit (recorded in the notes and in triage/C07_round2.md, "
        "not judged: no answer is returned)",
        "a call inside a history that ends MAX_ITER below the 2^rows bound is accepted as a cut-off (the statement puts no bound "
        "on the number of iterations); its selections are still judged",
        "max_iter cut-offs are recognised by status MAX_ITER; they are accepted only when max_iter < 2^rows (every Algorithm-X "
        "search node is a distinct set of pairwise disjoint rows, so a search on R rows makes at most 2^R calls)",
        "column j is secondary iff its name equals (==) an entry of `secondary`; default names are 0..C-1",
        "0-row matrices with named columns and ragged / non-0/1 matrices are outside the judged domain",
    ]
    ctx.trusted += ["oracles/exact_cover.py (subset enumeration; two implementations cross-checked each run; union-find split + "
                    "bit-mask backtracking, sparse definition check and closed-form counts cross-checked against it each run)",
                    "checks/C07.py wellformed()/snapshot() for the inner contracts"]


# ------------------------------------------------------------------ replay
def replay_history(D, rec, case):
    """Replays the recorded start instance and edits in this one process, up to the failing step (the generator is not
    consulted: the case holds the start matrix in sparse form and the edit list)."""
    acc = new_acc()
    H = dict(case)
    H["cfgs"] = BASE_CFGS + [c for c in [(True, 100, None)] if case["family"] == "long"] + [c for c in [(False, None, 3)] if case["family"] == "small"]
    cfg = (case["find_all"], case["max_solutions"], case["max_iter"])
    if cfg not in H["cfgs"] and case["fail_step"] != 0:
        H["cfgs"] = H["cfgs"] + [cfg]
    TIMEOUT[0] = 240.0
    print(f"replay: history ({case['family']}, spec {case['spec']}), start {len(case['rows'])} rows x {case['n_cols']} columns, "
          f"columns={short(case['columns'], 80)}, secondary={short(case['secondary'], 80)}, edits {case['steps'][:case['fail_step']]}")
    got = run_history(D, H, acc, upto=case["fail_step"], log=lambda t: print("replay:", t))
    fresh_bad = False
    if rec.get("obligation", "").endswith("fresh-process") and got is not None:
        final, last = got
        for (c, here), there in zip(last, fresh_answers([(final, [c for c, _ in last])])[0]):
            same = here[:4] == there[:4]
            fresh_bad |= not same and there[0] != "hang"
            print(f"replay: fresh process, find_all={c[0]} max_solutions={c[1]} max_iter={c[2]}: {'same answer' if same else f'{there[1:3] + there[4:]} (here: {here[1:3] + here[4:]})'}")
    if not acc["viol"] and not fresh_bad:
        print("replay: contract holds on every step of this history")
    return 1 if acc["viol"] or acc["hangs"] or fresh_bad else 0


def replay(rec) -> int:
    use_repo()
    import solvor.dlx as D
    case = rec.get("case") or {}
    if case.get("kind") == "history":
        return replay_history(D, rec, case)
    columns, secondary = lit(case.get("columns")), lit(case.get("secondary"))
    matrix = case["matrix"]
    if case.get("kind") == "links":
        seq = tuple(case.get("seq") or ())
        v, _ = check_links(D, matrix, columns, secondary, [seq] if rec["obligation"].endswith("exact-inverse") and seq else
                           [tuple(seq[:k]) for k in range(len(seq) + 1)])
        if v is None:
            print("replay: helpers not available under these names; nothing to replay")
            return 0
        for ob, _, detail in v:
            print("replay:", ob, "::", detail)
        if not v:
            print("replay: structure contracts hold on this case")
        return 1 if v else 0
    cfg = (case["find_all"], case["max_solutions"], case["max_iter"])
    if case.get("kind") == "restore":
        v = check_search_restores(D, matrix, columns, secondary, cfg)
        for ob, _, detail in v or []:
            print("replay:", ob, "::", detail)
        if not v:
            print("replay: structure restored")
        return 1 if v else 0
    flags = O.secondary_flags(n_cols_of(matrix), columns, secondary)
    covers = O.all_covers_naive(matrix, flags)
    bad, hang, r = judge(D, matrix, case.get("form", "list"), columns, secondary, cfg, flags, covers)
    print(f"replay: solve_exact_cover({in_form(matrix, case.get('form', 'list'))!r}, columns={columns!r}, secondary={secondary!r}, "
          f"find_all={cfg[0]}, max_solutions={cfg[1]}, max_iter={cfg[2]})")
    print("replay: result", observe(r) if r is not None else ("hang" if hang else "exception"),
          "| all covers (oracle):", sorted(sorted(c) for c in covers))
    for ob, detail in bad:
        print("replay:", ob, "::", detail)
    if not bad:
        print("replay: contract holds on this case")
    return 1 if bad or hang else 0

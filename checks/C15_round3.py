"""C15 round 3 - presentation diversity (scope S9 of checks/C15.py; same contract, same eval_case, same oracles).

A structural instance is a presentation over the integer nodes 0..n-1 (node order, neighbour lists with asymmetry, duplicates,
self loops, neighbours outside the node set) taken from the generators of the earlier scopes: every simple graph on <= 4
(thorough: 5) nodes, every neighbour function on <= 3 nodes, structured random graphs on 6..14 nodes, the low end of the size
ladder.  It is handed to the functions under check through a *presentation* drawn from the product of

* node labels     : totally ordered sets - ints from 0, ints mixed with non-integral floats (0, 0.5, 1, 1.5, ...), strings
                    from "", int tuples from () (lexicographic) - for all functions; and unordered sets - falsy values (0, "",
                    (), frozenset(), b"" and None), one None among ints, pairs (u, w) whose head is itself a node, frozensets,
                    "1" next to 1, nested tuples, a 12-type mix - for articulation_points, kcore_decomposition, kcore and
                    pagerank only (bridges documents "(u, v) with u < v" and louvain's `<` on labels is the same convention:
                    unorderable or partially ordered labels are outside their domain; left out, see triage/C15_round3.md).  Every scheme is rotated, so the odd labels sit on
                    cut vertices, leaves, hubs, isolated nodes in turn.  Neighbours outside the node set are shown as None, a
                    pair whose head is a node, a tuple, a negative number (whatever is not a node)
* equal copies    : every occurrence of a label in a neighbour list is a fresh equal object, in mode "types" possibly of another
                    numeric type (1 / 1.0 / True).  A node is what ==/hash say it is: the functions test `w in node_set`, the
                    statement identifies neighbours with nodes by value; the oracle works on the integer instance and its answer
                    is mapped to the labels, compared with set / dict equality
* containers      : `nodes` as the caller's persistent list, tuple, deque, dict (keys), dict keys view, generator, iter(), map();
                    neighbours(v) as the caller's persistent list, tuple, deque, dict keys view, generator, iter(), map(), or a
                    rotation of them within one call; the neighbour callable as lambda, bound method, functools.partial, object
* frame clauses   : `frame:caller-owned-inputs-unchanged` (node list, neighbour lists / tuples / deques / dicts: repr before ==
                    repr after) and `ensures:same-call-same-answer` (every call is made twice; order-independent text of the
                    result, floats bit for bit)
"""
from __future__ import annotations

import functools
import random
from collections import deque

P = "C15"
ORDERED = ("ints", "numix", "strs", "tuples")
UNORDERED = ("falsy", "none", "pairs", "fsets", "strint", "nested", "mixed2")
NODE_KINDS = ("list", "tuple", "deque", "dict", "keys", "gen", "iter", "map")
NB_KINDS = ("list", "tuple", "deque", "keys", "gen", "iter", "map", "rot")
CALL_KINDS = ("lambda", "bound", "partial", "object")
ALIAS = (None, "copies", "types")
FNS_ANY = ("articulation_points", "kcore_decomposition", "kcore", "pagerank")
FNS_ORD = ("articulation_points", "bridges", "kcore_decomposition", "kcore", "louvain", "pagerank")
FOREIGN = (None, (0, 1), ("zz",), -7, "zz", frozenset({-1}), -0.5)


# ------------------------------------------------------------------ labels
def _nested(i):
    return () if i == 0 else (_nested((i - 1) // 2), i)


def _digits(i):
    out = []
    while i:
        out.append(i % 3)
        i //= 3
    return tuple(reversed(out))


def pool(scheme, n):
    if scheme == "ints":
        out = list(range(n))
    elif scheme == "numix":
        out = [i // 2 if i % 2 == 0 else i // 2 + 0.5 for i in range(n)]
    elif scheme == "strs":
        out = [""] + ["%d" % (i - 1) if i < 4 else "n%03d" % i for i in range(1, n)]
    elif scheme == "tuples":
        out = [_digits(i) for i in range(n)]
    elif scheme == "falsy":
        out = ([None, 0, "", (), frozenset(), b""] + list(range(1, n)))[:n]
    elif scheme == "none":
        out = [None] + list(range(1, n))
    elif scheme == "pairs":
        out = [i // 2 if i % 2 == 0 else (i // 2, (1, 0.5, 2, 0)[(i // 2) % 4]) for i in range(n)]
        if n >= 6:
            out[5] = ((0, 1), 2)
    elif scheme == "fsets":
        out = [frozenset() if i == 0 else frozenset({i}) if i % 2 else frozenset({i, i - 1}) for i in range(n)]
    elif scheme == "strint":
        out = [i // 2 if i % 2 == 0 else str(i // 2) for i in range(n)]
    elif scheme == "nested":
        out = [_nested(i) for i in range(n)]
    elif scheme == "mixed2":
        base = [1, "1", 1.5, (1,), frozenset({1}), b"1", None, (1, "1"), "", 0, (), "None"]
        out = (base + [("m", i) for i in range(len(base), n)])[:n]
    else:
        raise ValueError(scheme)
    if len(set(out)) != n or len(out) != n:
        raise AssertionError(f"label scheme {scheme} is not injective for n={n}")
    return out


def labels(scheme, n, rot=0):
    out = pool(scheme, n)
    r = rot % n if n else 0
    return out[r:] + out[:r]


def alt(x, k, types):
    """an object equal to x (same hash), built afresh where the type allows; with types=True possibly of another numeric type"""
    if x is None or isinstance(x, bool):
        return x
    if isinstance(x, int):
        if types and abs(x) < 2 ** 53:
            forms = [x, float(x)] + ([bool(x)] if x in (0, 1) else [])
            return forms[k % len(forms)]
        return x
    if isinstance(x, float):
        if types and x.is_integer() and k % 2:
            return int(x)
        return float(repr(x))
    if isinstance(x, str):
        return "".join(list(x))
    if isinstance(x, bytes):
        return bytes(bytearray(x))
    if isinstance(x, tuple):
        return tuple(alt(y, k + i, types) for i, y in enumerate(x))
    if isinstance(x, frozenset):
        return frozenset(alt(y, k, types) for y in x)
    return x


def _ident(x):
    return x


class _Nb:
    def __init__(self, f):
        self.f = f

    def __call__(self, v):
        return self.f(v)


class Presented:
    """the caller's side of one presented instance: persistent objects built once, handed out call after call"""

    def __init__(self, nodes, nbrs, pres):
        n = len(nodes)
        self.pres = pres
        self.lab = labels(pres["labels"], n, pres.get("rot", 0))
        lab = self.lab
        ns = set(nodes)
        if ns != set(range(n)):
            raise AssertionError("structural instance must use the nodes 0..n-1")
        labset = set(lab)
        fr = pres.get("foreign", 0)
        foreign = next(f for f in FOREIGN[fr % len(FOREIGN):] + FOREIGN[:fr % len(FOREIGN)] if f not in labset)
        types = pres.get("alias") == "types"
        fresh = pres.get("alias") in ("copies", "types")
        site = [0]

        def show(x):
            if x not in ns:
                return foreign
            if not fresh:
                return lab[x]
            site[0] += 1
            return alt(lab[x], site[0], types)

        self.nodes = [lab[v] for v in nodes]              # label space, caller's order
        self.nbrs = [[show(w) for w in l] for l in nbrs]  # the caller's persistent lists
        if pres.get("nbr") == "keys":                      # a dict shows every neighbour once
            self.nbrs = [list(dict.fromkeys(l)) for l in self.nbrs]
        self.G = {v: l for v, l in zip(self.nodes, self.nbrs)}
        self.T = {v: tuple(l) for v, l in self.G.items()}
        self.D = {v: deque(l) for v, l in self.G.items()}
        self.K = {v: dict.fromkeys(l) for v, l in self.G.items()}
        self.node_list = list(self.nodes)
        self.node_tuple = tuple(self.nodes)
        self.node_deque = deque(self.nodes)
        self.node_dict = dict.fromkeys(self.nodes)
        self.calls = 0
        # the de-presented view for the oracle: canonical labels, what the callable really yields
        self.o_nodes = list(self.nodes)
        self.o_nbrs = [[lab[w] if w in ns else foreign for w in l] for l in nbrs]
        if pres.get("nbr") == "keys":
            self.o_nbrs = [list(dict.fromkeys(l)) for l in self.o_nbrs]

    def frame(self):
        return repr((self.node_list, self.node_tuple, self.node_deque, self.node_dict, self.G, self.T, self.D, self.K))

    def nodes_arg(self):
        k = self.pres.get("nodes", "list")
        if k == "list":
            return self.node_list
        if k == "tuple":
            return self.node_tuple
        if k == "deque":
            return self.node_deque
        if k == "dict":
            return self.node_dict
        if k == "keys":
            return self.node_dict.keys()
        if k == "gen":
            return (v for v in self.node_list)
        if k == "iter":
            return iter(self.node_list)
        return map(_ident, self.node_list)

    def _nb(self, v):
        k = self.pres.get("nbr", "list")
        if k == "rot":
            self.calls += 1
            k = NB_KINDS[self.calls % (len(NB_KINDS) - 1)]
            if k == "keys":
                k = "tuple"  # (a dict would drop duplicates that the other kinds of this rotation show)
        if k == "list":
            return self.G[v]
        if k == "tuple":
            return self.T[v]
        if k == "deque":
            return self.D[v]
        if k == "keys":
            return self.K[v].keys()
        if k == "gen":
            return (w for w in self.G[v])
        if k == "iter":
            return iter(self.G[v])
        return map(_ident, self.G[v])

    def nb_arg(self):
        self.calls = 0
        k = self.pres.get("call", "lambda")
        if k == "lambda":
            return lambda v: self._nb(v)
        if k == "bound":
            return self._nb
        if k == "partial":
            return functools.partial(Presented._nb, self)
        return _Nb(self._nb)


def mapped_oracle(C, nodes, nbrs, lab, acc):
    """oracle values of the integer instance, mapped to the labels (pre-filled cache for C15.eval_case)"""
    pre = {}
    C.oracle_und(nodes, nbrs, pre, "adj")
    if len(nodes) <= C.BIG:
        for what in ("cut", "bridges", "core"):
            C.oracle_und(nodes, nbrs, pre, what)
    C.xcheck(nodes, pre, acc)
    return {"adj": {lab[v]: {lab[w] for w in s} for v, s in pre["adj"].items()},
            "cut": {lab[v] for v in pre["cut"]},
            "bridges": {frozenset(lab[v] for v in e) for e in pre["bridges"]},
            "core": {lab[v]: c for v, c in pre["core"].items()}}, max(pre["core"].values(), default=0)


def fns_for(pres):
    return FNS_ORD if pres["labels"] in ORDERED else FNS_ANY


def plan_calls(pres, top, rng, lean=False):
    calls = []
    for fn in fns_for(pres):
        if fn == "kcore":
            ks = sorted({1, top, top + 1}) if lean else list(range(0, top + 2))
            calls += [("kcore", {"k": k}) for k in ks]
        elif fn == "louvain":
            calls += [("louvain", {"resolution": r}) for r in ((1.0,) if lean else (1.0, rng.choice((0.5, 2.0))))]
        elif fn == "pagerank":
            calls.append(("pagerank", {"damping": rng.choice((0.5, 0.85)), "max_iter": 2000 if lean else 20000, "tol": None}))
        else:
            calls.append((fn, {}))
    return calls


def eval_one(C, fn, params, nodes, nbrs, pres, pre=None, acc=None):
    """one call on one presented instance, made twice -> [(suffix, detail)]"""
    PR = Presented(nodes, nbrs, pres)
    if pre is None:
        pre, _ = mapped_oracle(C, nodes, nbrs, PR.lab, acc if acc is not None else {"oracle_defects": [], "xchecked": 0})
    bad_all, canons = [], []
    before = PR.frame()
    for rep in range(2):
        out = {}
        via = (PR.nodes_arg(), PR.nb_arg())
        bad = C.guarded(lambda: C.eval_case(fn, PR.o_nodes, PR.o_nbrs, params, dict(pre), via, out))
        canons.append((out.get("canon"), [b for b in bad if b[0].startswith("returns")]))
        if rep == 0:
            bad_all += bad
        else:
            seen = {b[0] for b in bad_all}
            bad_all += [b for b in bad if b[0] not in seen]
        if PR.frame() != before:
            bad_all.append(("frame:caller-owned-inputs-unchanged", f"the caller's node container or a neighbour list / tuple / deque / dict differs after call #{rep + 1}"))
            break
    if len(canons) == 2 and canons[0] != canons[1]:
        bad_all.append(("ensures:same-call-same-answer", f"first call {str(canons[0])[:300]}, the same call again {str(canons[1])[:300]}"))
    return bad_all


def judge(C, acc, fn, params, nodes, nbrs, pres, pre, family=None):
    case = {"mode": "pres", "fn": fn, "nodes": list(nodes), "nbrs": [list(l) for l in nbrs], "params": params, "pres": pres}
    if family:
        case["family"] = family
    acc["evals"] += 2
    bad = eval_one(C, fn, params, nodes, nbrs, pres, pre, acc)
    if not bad:
        return
    bad = [(s, d + f" [presentation {pres}; labels {labels(pres['labels'], len(nodes), pres.get('rot', 0))[:12]!r}]") for s, d in bad]
    C.record(acc, fn, C.is_asym(nodes, nbrs), bad, case, "[presentation]")


def pick(rng, n, ordered=None):
    if ordered is None:
        ordered = rng.random() < 0.45
    sch = rng.choice(ORDERED if ordered else UNORDERED)
    alias = rng.choice(ALIAS)
    if sch == "ints" and alias is None:
        alias = "types"
    return {"labels": sch, "rot": rng.randrange(max(1, n)), "alias": alias, "nodes": rng.choice(NODE_KINDS), "nbr": rng.choice(NB_KINDS),
            "call": rng.choice(CALL_KINDS), "foreign": rng.randrange(len(FOREIGN))}


def of_index(i, n):
    sch = (ORDERED + UNORDERED)[i % 11]
    return {"labels": sch, "rot": (i // 2) % max(1, n), "alias": "types" if sch == "ints" else ALIAS[(i // 11) % 3], "nodes": NODE_KINDS[(i // 3) % len(NODE_KINDS)],
            "nbr": NB_KINDS[(i // 5) % len(NB_KINDS)], "call": CALL_KINDS[(i // 7) % 4], "foreign": i % len(FOREIGN)}


def run_instance(C, acc, nodes, nbrs, pres, rng, lean=False, family=None):
    lab = labels(pres["labels"], len(nodes), pres.get("rot", 0))
    pre, top = mapped_oracle(C, nodes, nbrs, lab, acc)
    for fn, params in plan_calls(pres, top, rng, lean):
        judge(C, acc, fn, params, nodes, nbrs, pres, pre, family)
    acc["cases"] += 1
    ns = set(nodes)
    if any(w in ns and w != v for v, l in zip(nodes, nbrs) for w in l):
        acc["keys"].append(hash(("S9", tuple(nodes), tuple(tuple(l) for l in nbrs), repr(sorted(pres.items())))))
    if len(acc["samples"]) < 1 and len(nodes) >= 3 and len(nodes) <= C.BIG:
        acc["samples"].append({"scope": "S9", "nodes": list(nodes), "nbrs": [list(l) for l in nbrs], "presentation": pres})


def task(C, t, acc):
    """t = ("S9", sub, ...)"""
    sub = t[1]
    if sub == "simple":  # every simple graph on n nodes, symmetric lists, presentation walked by index
        _, _, n, lo, hi, seed = t
        rng = random.Random(f"{seed}/S9/simple/{n}/{lo}")
        for mask in range(lo, hi):
            nbrs = C.simple_graph(n, mask)
            nodes = list(range(n))
            if mask % 2:
                nodes = nodes[::-1]
                nbrs = nbrs[::-1]
            run_instance(C, acc, nodes, nbrs, of_index(mask * 7 + n, n), rng)
    elif sub == "nbfun":  # every neighbour function on n nodes
        _, _, n, lo, hi, step, seed = t
        rng = random.Random(f"{seed}/S9/nbfun/{n}/{lo}")
        cells = [(i, j) for i in range(n) for j in range(n)]
        for mask in range(lo, hi, step):
            nbrs = [[] for _ in range(n)]
            for b, (i, j) in enumerate(cells):
                if mask >> b & 1:
                    nbrs[i].append(j)
            run_instance(C, acc, list(range(n)), nbrs, of_index(mask * 5 + 3, n), rng)
    elif sub == "struct":
        _, _, idx, count, seed = t
        rng = random.Random(f"{seed}/S9/struct/{idx}")
        for _ in range(count):
            n, ed, kind = C.structured(rng)
            nodes, nbrs = C.present(rng, n, ed, asym=rng.choice([0.0, 0.0, 0.4, 1.0]), dup=rng.choice([0.0, 0.0, 0.4]), loops=rng.choice([0.0, 0.0, 0.3]),
                                    foreign=rng.choice([0.0, 0.2]), isolated=rng.choice([0, 0, 1, 2]))
            tot = len(nodes)
            nbrs = [[w if w < tot else tot + 5 for w in l] for l in nbrs]
            run_instance(C, acc, nodes, nbrs, pick(rng, tot), rng)
    elif sub == "ladder":
        _, _, fam, n, rep, seed = t
        nodes, nbrs, inst, label, rng = C.ladder_instance(fam, n, rep, seed)
        if any(isinstance(v, str) for v in nodes):  # 'strings' style: back to the integer instance
            back = {v: int(v[1:]) for v in nodes}
            nodes, nbrs = [back[v] for v in nodes], [[back.get(w, len(nodes) + 5) for w in l] for l in nbrs]
        tot = len(nodes)
        nbrs = [[w if isinstance(w, int) and w < tot else tot + 5 for w in l] for l in nbrs]
        run_instance(C, acc, nodes, nbrs, pick(rng, tot), rng, lean=True, family=dict(label, scope="S9"))
    else:
        raise ValueError(sub)


def tasks(C, q, seed):
    out = []
    for n in range(0, 6 if q else 7):
        tot = 1 << (n * (n - 1) // 2)
        out += [("S9", "simple", n, lo, hi, seed) for lo, hi in C.chunks(tot, 128)]
    for n in range(1, 4):
        tot = 1 << (n * n)
        out += [("S9", "nbfun", n, lo, hi, 1, seed) for lo, hi in C.chunks(tot, 128)]
    st4 = 17 if q else 3
    out += [("S9", "nbfun", 4, lo, hi, st4, seed) for lo, hi in C.chunks(1 << 16, 4096)]
    r = 1000 if q else 12000
    out += [("S9", "struct", i, 40, seed) for i in range(r // 40)]
    from oracles import c15_big as B
    allf = B.FAMILIES_SHALLOW + B.FAMILIES_DEEP
    lad = []
    for n in ((33, 65, 130) if q else (33, 65, 130, 260, 501)):
        for k, fam in enumerate(allf + ("gnp1.5",)):
            if q and (k + n) % 2:
                continue
            for rep in ((1,) if q else (1, 2)):
                lad.append(("S9", "ladder", fam, n, rep, seed))
    out += lad
    desc = dict(simple_graphs="every simple graph on 0..%d nodes (node order reversed on every second)" % (5 if q else 6),
                neighbour_functions="every neighbour function on 1..3 nodes and every %dth on 4 nodes" % st4,
                structured=r, ladder_instances=len(lad), ladder_sizes=[33, 65, 130] if q else [33, 65, 130, 260, 501],
                labels_all_functions=list(ORDERED), labels_without_bridges_and_louvain=list(UNORDERED), copies=[str(a) for a in ALIAS],
                node_containers=list(NODE_KINDS), neighbour_containers=list(NB_KINDS), neighbour_callables=list(CALL_KINDS),
                clauses="oracle on the integer instance, mapped to the labels; frame:caller-owned-inputs-unchanged; ensures:same-call-same-answer (every call made twice)")
    return out, desc


def replay(C, case):
    acc = {"oracle_defects": [], "xchecked": 0}
    bad = eval_one(C, case["fn"], case["params"], case["nodes"], case["nbrs"], case["pres"], None, acc)
    lab = labels(case["pres"]["labels"], len(case["nodes"]), case["pres"].get("rot", 0))
    print("replay:", case["fn"], case["params"], "integer instance nodes", case["nodes"][:40], "nbrs", case["nbrs"][:40], "presentation", case["pres"],
          "labels", lab[:40])
    print("  ->", bad or "no violation")
    return 1 if bad else 0

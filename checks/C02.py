"""C02 - SAT verdicts and termination.  Bounded back end (top-level contract of solve_sat against brute force / z3)
plus the deductive obligations on the helpers of sat.py that are within the prover's reach."""
from vf.core import use_repo
from checks import sat_common

LEVEL = "exploration"


def run(ctx):
    use_repo()
    prove(ctx)
    sat_common.run_property(ctx, "C02")
    ctx.rule = ("cases = CNF x assumptions x solution_limit x luby_factor x budgets from the families listed in scopes; "
                "contract: INFEASIBLE only if no model (oracle), a model whenever one exists and budgets are generous, never a model for an unsatisfiable formula, status in {OPTIMAL, INFEASIBLE, MAX_ITER}, every call returns (per-case alarm 6-60 s, far above the observed milliseconds); "
                + sat_common.ROUND2_RULE + sat_common.ROUND3_RULE +
                "non-trivial = the run made >= 1 decision on a formula with > 1 clause, or returned > 1 model; distinct = different (formula or recipe, configuration) / different call sequence")
    ctx.assumptions += ["oracle: planted witness (checked by direct evaluation) on the size ladder - a formula with a verified model can never be INFEASIBLE; "
                        "a returned assignment that passes evaluation certifies satisfiability; brute force up to 14 variables, z3 above "
                        "(trusted; time-limited on the size ladder, an INFEASIBLE claim it cannot decide is not judged and is counted in the scope)",
                        "MAX_ITER is accepted wherever a conflict / restart budget below the default was passed (long runs are capped at 14000-40000 conflicts)",
                        "bounded: decided only on the enumerated / sampled cases"]


def prove(ctx):
    from vf.prove import prove as _p
    _p(ctx, ["specs.sat"], "C02", lemma_groups=())


def replay(rec):
    use_repo()
    v, info = sat_common.replay_case(rec)
    print("replay:", v or "no violation", info)
    return 1 if any(o.startswith("C02") for o, _ in v) else 0

"""C15 - cut vertices, bridges, k-cores, PageRank and Louvain obey their definitions (bounded back end).

A *case* is a presentation of a graph: (node list, neighbour lists aligned with it).  Every case is run
through the real functions of the tree under check and compared with oracles/c15_graph.py (brute force from
the definitions, integers / Fractions).

Scopes (see run()):
  S1  all labelled simple graphs, n <= 6 (quick) / 7 (thorough), symmetric sorted neighbour lists
  S2  the same graphs under other visiting orders (n <= 4: every neighbour order; n = 5, 6: reversed + random
      node / neighbour orders)
  S3  every neighbour function on n <= 4 nodes (each N(v) any subset of the nodes: all digraphs with self
      loops = all asymmetric presentations with self loops); also the PageRank digraph scope
  S4  simple graphs on 5 nodes, random asymmetric / duplicated / self-looped / shuffled presentations
  S5  seeded structured graphs on 6..12 nodes (trees, cacti, clique chains, G(n,p), unions + isolated nodes),
      random presentations, random damping / resolution / tolerance
"""
from __future__ import annotations

import itertools
import math
import random
import signal
from fractions import Fraction

from vf.core import Ctx, use_repo

LEVEL = "exploration"
P = "C15"
RES = (0.5, 1.0, 2.0)
DAMP = (0.5, 0.85, 0.99)
FLOAT_SLACK = Fraction(1, 10 ** 13)
SUM_TOL = Fraction(1, 10 ** 9)
MOD_TOL = Fraction(1, 10 ** 9)
CAP = 25  # violations kept per obligation per task (all are counted)


class _Timeout(Exception):
    pass


def _alarm(signum, frame):
    raise _Timeout()


# ------------------------------------------------------------------ helpers
def mk_nb(nodes, nbrs):
    idx = {v: i for i, v in enumerate(nodes)}
    return lambda v: list(nbrs[idx[v]])


def is_asym(nodes, nbrs):
    """some u != v (both nodes) with v in N(u) but u not in N(v)."""
    ns = set(nodes)
    sets = {v: set(l) for v, l in zip(nodes, nbrs)}
    for v in nodes:
        for w in sets[v]:
            if w != v and w in ns and v not in sets[w]:
                return True
    return False


def _srt(xs):
    return sorted(xs, key=repr)


# ------------------------------------------------------------------ one function on one presentation
def eval_case(fn, nodes, nbrs, params, pre=None):
    """Run `fn` of the tree under check on the presentation; return [(obligation suffix, detail)].
    `pre` caches oracle values of this presentation between calls (closure, core numbers)."""
    from oracles import c15_graph as O
    bad = []
    nb = mk_nb(nodes, nbrs)
    pre = pre if pre is not None else {}
    if fn in ("articulation_points", "bridges", "kcore_decomposition", "kcore", "louvain"):
        if "adj" not in pre:
            pre["adj"] = O.closure(nodes, nbrs)
        adj = pre["adj"]
    if fn in ("kcore_decomposition", "kcore") and "core" not in pre:
        pre["core"] = O.core_numbers(adj)
    if fn == "articulation_points":
        from solvor.articulation import articulation_points
        sol = articulation_points(list(nodes), nb).solution
        exp = O.cut_vertices(adj)
        if not isinstance(sol, (set, frozenset)) or set(sol) != exp:
            bad.append(("ensures:cut-vertices", f"returned {_srt(sol)}, removal-definition gives {_srt(exp)}"))
    elif fn == "bridges":
        from solvor.articulation import bridges
        sol = bridges(list(nodes), nb).solution
        exp = O.bridge_edges(adj)
        ok_shape = isinstance(sol, list) and all(isinstance(e, tuple) and len(e) == 2 for e in sol)
        if not ok_shape:
            bad.append(("ensures:bridges", f"result is not a list of pairs: {sol!r}"))
        else:
            got = [frozenset(e) for e in sol]
            if len(set(got)) != len(got):
                bad.append(("ensures:bridges", f"an edge is reported twice: {sol!r}"))
            elif set(got) != exp:
                bad.append(("ensures:bridges", f"returned {_srt(map(_srt, got))}, removal-definition gives {_srt(map(_srt, exp))}"))
            if any(not (e[0] < e[1]) for e in sol):
                bad.append(("ensures:canonical-order", f"edge not given as (min,max): {sol!r}"))
    elif fn == "kcore_decomposition":
        from solvor.kcore import kcore_decomposition
        sol = kcore_decomposition(list(nodes), nb).solution
        exp = pre["core"]
        if not isinstance(sol, dict) or sol != exp:
            bad.append(("ensures:core-numbers", f"returned {sol!r}, peeling-definition gives {exp!r}"))
    elif fn == "kcore":
        from solvor.kcore import kcore
        k = params["k"]
        sol = kcore(list(nodes), nb, k).solution
        core = pre["core"]
        exp = {v for v in nodes if core[v] >= k}
        if not isinstance(sol, (set, frozenset)) or set(sol) != exp:
            bad.append(("ensures:core-at-least-k", f"k={k}: returned {_srt(sol)}, nodes with core number >= k are {_srt(exp)}"))
    elif fn == "louvain":
        from solvor.community import louvain
        res = params["resolution"]
        r = louvain(list(nodes), nb, resolution=res)
        sol = r.solution
        why = "result is not a list" if not isinstance(sol, list) else O.is_partition(nodes, sol)
        if why:
            bad.append(("ensures:partition", f"resolution={res}: {why}: {sol!r}"))
        else:
            q = O.modularity(adj, sol, res)
            if q is not None:  # graphs without edges: modularity undefined, nothing demanded
                obj = r.objective
                if not isinstance(obj, (int, float)) or not math.isfinite(obj) or abs(Fraction(obj) - q) > MOD_TOL:
                    bad.append(("ensures:modularity", f"resolution={res}: reported {obj!r}, modularity of the returned partition "
                                                      f"{[_srt(c) for c in sol]} is {float(q)!r}"))
    elif fn in ("pagerank", "pagerank_edges"):
        from solvor.types import Status
        kw = {}
        for k in ("damping", "max_iter", "tol"):
            if params.get(k) is not None:
                kw[k] = params[k]
        d = params.get("damping") if params.get("damping") is not None else 0.85
        tol = params.get("tol") if params.get("tol") is not None else 1e-6
        if fn == "pagerank":
            from solvor.pagerank import pagerank
            r = pagerank(list(nodes), nb, **kw)
        else:
            from solvor.pagerank import pagerank_edges
            n = len(nodes)
            assert list(nodes) == list(range(n))
            edges = [(u, w) for u in range(n) for w in nbrs[u]]
            r = pagerank_edges(n, edges, backend="python", **kw)
        sol = r.solution
        if not isinstance(sol, dict) or set(sol.keys()) != set(nodes) or len(sol) != len(nodes):
            bad.append(("ensures:domain", f"scores are not given for exactly the node set: {sol!r}"))
            return bad
        if not nodes:
            return bad
        vals = [sol[v] for v in nodes]
        if any((not isinstance(x, (int, float))) or (not math.isfinite(x)) for x in vals):
            bad.append(("ensures:nonnegative", f"non-finite score: {sol!r}"))
            return bad
        if any(x < 0 for x in vals):
            bad.append(("ensures:nonnegative", f"negative score: {sol!r}"))
        s = sum((Fraction(x) for x in vals), Fraction(0))
        if abs(s - 1) > SUM_TOL:
            bad.append(("ensures:sums-to-1", f"scores sum to {float(s)!r}: {sol!r}"))
        if r.status != Status.MAX_ITER:
            verdicts = []
            for multi in (True, False):
                res = O.pagerank_residual(nodes, nbrs, sol, d, multi)
                lim = Fraction(tol) + FLOAT_SLACK
                if res > lim:  # graph-dependent factor of assumption E1 (computed only when the plain bound fails)
                    lim = Fraction(tol) * max(Fraction(1), O.pagerank_residual_bound(nodes, nbrs, d, multi)) + FLOAT_SLACK
                verdicts.append((res <= lim, res, lim))
                if res <= lim:
                    break
            if not any(v[0] for v in verdicts):
                res, lim = verdicts[0][1], verdicts[0][2]
                bad.append(("ensures:equation", f"damping={d} tol={tol}: max_v |p_v - G(p)_v| = {float(res):.3e} > allowed {float(lim):.3e} "
                                                f"(status {r.status.name}, {r.iterations} iterations): {sol!r}"))
    else:
        raise ValueError(fn)
    return bad


def plain_ratio(nodes, nbrs, params):
    """diagnostic only: plain residual / tol of a converged pagerank run (reported in the evidence notes)."""
    from oracles import c15_graph as O
    from solvor.pagerank import pagerank
    from solvor.types import Status
    kw = {k: params[k] for k in ("damping", "max_iter", "tol") if params.get(k) is not None}
    r = pagerank(list(nodes), mk_nb(nodes, nbrs), **kw)
    if r.status == Status.MAX_ITER or not nodes:
        return 0.0
    d = params.get("damping") or 0.85
    tol = params.get("tol") or 1e-6
    return float(O.pagerank_residual(nodes, nbrs, r.solution, d, True) / Fraction(tol))


def calls_for(nodes, nbrs, plan, pre):
    """the (fn, params) list evaluated on one presentation under `plan`."""
    from oracles import c15_graph as O
    calls = []
    if plan.get("und"):
        calls += [("articulation_points", {}), ("bridges", {}), ("kcore_decomposition", {})]
        pre["adj"] = O.closure(nodes, nbrs)
        pre["core"] = core = O.core_numbers(pre["adj"])
        top = max(core.values()) if core else 0
        if plan.get("ktop"):  # lean plan (7-node graphs): only the two thresholds around the largest core number
            calls += [("kcore", {"k": top}), ("kcore", {"k": top + 1})]
        else:
            calls += [("kcore", {"k": k}) for k in range(-1 if len(nodes) <= 4 else 0, top + 2)]
    for res in plan.get("res", ()):
        calls.append(("louvain", {"resolution": res}))
    for (d, mi, tol) in plan.get("pr", ()):
        calls.append(("pagerank", {"damping": d, "max_iter": mi, "tol": tol}))
    for (d, mi, tol) in plan.get("pre", ()):
        calls.append(("pagerank_edges", {"damping": d, "max_iter": mi, "tol": tol}))
    return calls


def eval_presentation(nodes, nbrs, plan, acc):
    """evaluate every planned call; record into the task accumulator."""
    asym = is_asym(nodes, nbrs)
    pre = {}
    for fn, params in calls_for(nodes, nbrs, plan, pre):
        case = {"fn": fn, "nodes": list(nodes), "nbrs": [list(l) for l in nbrs], "params": params}
        acc["evals"] += 1
        # CPU-time budget (ITIMER_VIRTUAL): the verdict does not depend on how busy the machine is
        signal.setitimer(signal.ITIMER_VIRTUAL, 60)
        try:
            try:
                bad = eval_case(fn, nodes, nbrs, params, pre)
            finally:
                signal.setitimer(signal.ITIMER_VIRTUAL, 0)
        except _Timeout:
            bad = [("returns", "no result after 60 s of CPU time")]
        except RecursionError:
            bad = [("returns", "RecursionError")]
        except Exception as e:  # the functions are total on these inputs
            bad = [("returns", f"raised {type(e).__name__}: {e}")]
        for suffix, detail in bad:
            obl = f"{P}/{fn}/{suffix}"
            if asym and fn in ("articulation_points", "bridges", "kcore_decomposition", "kcore", "louvain"):
                obl += "[asymmetric-lists]"
            acc["fail_counts"][obl] = acc["fail_counts"].get(obl, 0) + 1
            if acc["fail_counts"][obl] <= CAP:
                acc["fails"].append((obl, case, detail))
    key = hash((tuple(nodes), tuple(tuple(l) for l in nbrs), repr(sorted(plan.items()))))
    acc["cases"] += 1
    acc["asym"] += 1 if asym else 0
    ns = set(nodes)
    if any(w in ns and (w != v or not plan.get("und")) for v, l in zip(nodes, nbrs) for w in l):
        acc["keys"].append(key)
    if len(acc["samples"]) < 2 and len(nodes) >= 3:
        acc["samples"].append({"nodes": list(nodes), "nbrs": [list(l) for l in nbrs], "plan": {k: v for k, v in plan.items()}})


# ------------------------------------------------------------------ generators
def pairs_of(n):
    return [(i, j) for i in range(n) for j in range(i + 1, n)]


def simple_graph(n, mask):
    nbrs = [[] for _ in range(n)]
    for b, (i, j) in enumerate(pairs_of(n)):
        if mask >> b & 1:
            nbrs[i].append(j)
            nbrs[j].append(i)
    return nbrs


def edges_of_mask(n, mask):
    return [e for b, e in enumerate(pairs_of(n)) if mask >> b & 1]


def present(rng, n, edges, asym=0.0, dup=0.0, loops=0.0, foreign=0.0, strings=False, isolated=0):
    """random presentation of the simple graph (n, edges) plus `isolated` extra nodes."""
    total = n + isolated
    labels = list(range(total))
    rng.shuffle(labels)  # vertex i of the abstract graph gets label labels[i]
    if strings:
        labels = ["n%02d" % x for x in labels]
    lists = {lab: [] for lab in labels}
    for (i, j) in edges:
        a, b = labels[i], labels[j]
        m = rng.random()
        if m < asym / 2:
            lists[a].append(b)
        elif m < asym:
            lists[b].append(a)
        else:
            lists[a].append(b)
            lists[b].append(a)
    for lab in labels:
        l = lists[lab]
        if l and rng.random() < dup:
            for _ in range(rng.randint(1, 3)):
                l.append(rng.choice(l))
        if rng.random() < loops:
            l.extend([lab] * rng.randint(1, 2))
        if rng.random() < foreign:
            l.append("zz" if strings else 99)
        rng.shuffle(l)
    nodes = list(labels)
    rng.shuffle(nodes)
    return nodes, [lists[v] for v in nodes]


def structured(rng):
    """(n, edges) from families built to contain cut vertices, bridges, nested cores, several components."""
    kind = rng.choice(["tree", "tree+", "cactus", "cliques", "gnp", "gnp", "union", "bipartite", "ladder"])
    n = rng.randint(6, 12)
    E = set()

    def add(a, b):
        if a != b:
            E.add((min(a, b), max(a, b)))

    if kind in ("tree", "tree+"):
        for v in range(1, n):
            add(v, rng.randrange(v))
        if kind == "tree+":
            for _ in range(rng.randint(1, 4)):
                add(rng.randrange(n), rng.randrange(n))
    elif kind == "cactus":  # cycles glued at shared vertices, some pendant edges
        used = 1
        while used < n:
            k = min(rng.randint(1, 4), n - used)
            hub = rng.randrange(used)
            cyc = [hub] + list(range(used, used + k))
            for a, b in zip(cyc, cyc[1:]):
                add(a, b)
            if k >= 2:
                add(cyc[-1], hub)
            used += k
    elif kind == "cliques":  # cliques joined by single edges or shared vertices
        used = 0
        prev = None
        while used < n:
            k = min(rng.randint(2, 5), n - used)
            c = list(range(used, used + k))
            for a in c:
                for b in c:
                    add(a, b)
            if prev is not None:
                add(rng.choice(prev), rng.choice(c))
                if rng.random() < 0.3:
                    add(rng.choice(prev), rng.choice(c))
            prev = c
            used += k
    elif kind == "gnp":
        p = rng.choice([0.12, 0.2, 0.3, 0.5, 0.8])
        for a in range(n):
            for b in range(a + 1, n):
                if rng.random() < p:
                    add(a, b)
    elif kind == "union":
        h = n // 2
        for v in range(1, h):
            add(v, rng.randrange(v))
        for a in range(h, n):
            for b in range(a + 1, n):
                if rng.random() < 0.6:
                    add(a, b)
    elif kind == "bipartite":
        h = rng.randint(1, n - 1)
        for a in range(h):
            for b in range(h, n):
                if rng.random() < 0.7:
                    add(a, b)
    else:  # ladder with some rungs missing
        h = n // 2
        for a in range(h - 1):
            add(a, a + 1)
            add(h + a, h + a + 1)
        for a in range(h):
            if rng.random() < 0.6:
                add(a, h + a)
    return n, sorted(E), kind


# ------------------------------------------------------------------ worker
PLAN_UND = {"und": True, "res": RES}
PR_STD = tuple((d, 20000, None) for d in DAMP)
PLAN_ALL4 = {"und": True, "res": RES, "pr": PR_STD + ((None, None, None),), "pre": ((0.85, 5000, None),)}


def work(task):
    from vf.core import use_repo
    use_repo()
    signal.signal(signal.SIGVTALRM, _alarm)
    acc = {"evals": 0, "cases": 0, "keys": [], "fails": [], "fail_counts": {}, "samples": [], "ratio": 0.0, "asym": 0}
    scope = task[0]
    if scope == "S1":
        _, n, lo, hi = task
        nodes = list(range(n))
        for mask in range(lo, hi):
            plan = PLAN_UND if n <= 6 else {"und": True, "ktop": True, "res": (RES[mask % 3],)}
            eval_presentation(nodes, simple_graph(n, mask), plan, acc)
    elif scope == "S2x":  # every neighbour order
        _, n, lo, hi = task
        nodes = list(range(n))
        plan = {"und": True, "res": (1.0, 2.0)}
        for mask in range(lo, hi):
            base = simple_graph(n, mask)
            for combo in itertools.product(*[list(itertools.permutations(l)) for l in base]):
                eval_presentation(nodes, [list(c) for c in combo], plan, acc)
    elif scope == "S2r":  # reversed + random orders / labels
        _, n, lo, hi, k, seed, res = task
        rng = random.Random(f"{seed}/S2r/{n}/{lo}")
        plan = {"und": True, "res": res}
        for mask in range(lo, hi):
            base = simple_graph(n, mask)
            eval_presentation(list(range(n)), [l[::-1] for l in base], plan, acc)
            eval_presentation(list(range(n))[::-1], [l for l in base][::-1], plan, acc)
            ed = edges_of_mask(n, mask)
            for _ in range(k):
                nodes, nbrs = present(rng, n, ed)
                eval_presentation(nodes, nbrs, plan, acc)
    elif scope == "S3":
        _, n, lo, hi, lean = task
        nodes = list(range(n))
        cells = [(i, j) for i in range(n) for j in range(n)]
        for mask in range(lo, hi):
            nbrs = [[] for _ in range(n)]
            for b, (i, j) in enumerate(cells):
                if mask >> b & 1:
                    nbrs[i].append(j)
            plan = PLAN_ALL4
            if lean:  # quick tier, n = 4: one damping per mask (rotating), defaults always, pagerank_edges on every 4th
                plan = {"und": True, "res": (1.0, 2.0), "pr": ((DAMP[mask % 3], 20000, None), (None, None, None)),
                        "pre": ((0.85, 5000, None),) if mask % 4 == 0 else ()}
            eval_presentation(nodes, nbrs, plan, acc)
            if mask % 7 == 0:
                for d in DAMP:
                    acc["ratio"] = max(acc["ratio"], plain_ratio(nodes, nbrs, {"damping": d, "max_iter": 20000}))
    elif scope == "S4":
        _, n, lo, hi, k, seed = task
        rng = random.Random(f"{seed}/S4/{n}/{lo}")
        for mask in range(lo, hi):
            ed = edges_of_mask(n, mask)
            for _ in range(k):
                nodes, nbrs = present(rng, n, ed, asym=rng.choice([0.0, 0.3, 0.6, 1.0]), dup=rng.choice([0.0, 0.5]),
                                      loops=rng.choice([0.0, 0.4]))
                plan = {"und": True, "res": (rng.choice(RES),), "pr": ((rng.choice(DAMP), 20000, None),)}
                eval_presentation(nodes, nbrs, plan, acc)
    elif scope == "S5":
        _, idx, count, seed = task
        rng = random.Random(f"{seed}/S5/{idx}")
        for _ in range(count):
            n, ed, kind = structured(rng)
            sym = rng.random() < 0.5
            nodes, nbrs = present(rng, n, ed, asym=0.0 if sym else rng.choice([0.2, 0.5, 1.0]), dup=rng.choice([0.0, 0.0, 0.4]),
                                  loops=rng.choice([0.0, 0.0, 0.3]), foreign=rng.choice([0.0, 0.0, 0.15]),
                                  strings=rng.random() < 0.15, isolated=rng.choice([0, 0, 1, 2]))
            res = rng.choice([0.5, 1.0, 2.0, 1.5, 3.0, 0.05, 10.0, round(rng.uniform(0.01, 4.0), 3)])
            d = rng.choice([0.5, 0.85, 0.99, 0.01, 0.3, 0.999, round(rng.uniform(0.02, 0.98), 3)])
            tol = rng.choice([None, None, 1e-3, 1e-9, 1e-12])
            plan = {"und": True, "res": (res,), "pr": ((d, 60000, tol), (d, None, None))}
            eval_presentation(nodes, nbrs, plan, acc)
    else:
        raise ValueError(scope)
    return acc


def chunks(total, size):
    return [(lo, min(total, lo + size)) for lo in range(0, total, size)]


# ------------------------------------------------------------------ driver
def oracle_selfcheck(ctx):
    """the oracles agree with hand-known facts (a wrong oracle is a checker defect, not a violation)."""
    from oracles import c15_graph as O
    path = O.closure([0, 1, 2, 3], [[1], [2], [3], []])
    assert O.cut_vertices(path) == {1, 2} and len(O.bridge_edges(path)) == 3
    k4p = O.closure(list(range(5)), [[1, 2, 3], [2, 3], [3], [4], []])
    assert O.core_numbers(k4p) == {0: 3, 1: 3, 2: 3, 3: 3, 4: 1}
    assert O.cut_vertices(k4p) == {3} and O.bridge_edges(k4p) == {frozenset((3, 4))}
    tri2 = O.closure(list(range(6)), [[1, 2], [2], [], [4, 5], [5], []])
    assert O.modularity(tri2, [{0, 1, 2}, {3, 4, 5}], 1) == Fraction(1, 2)
    assert O.modularity(tri2, [set(range(6))], 2) == Fraction(-1)
    for nbrs in ([[1], [2], [0, 0], []], [[0], [0, 2], [], [3, 1]]):
        for multi in (True, False):
            nodes = [0, 1, 2, 3]
            p = O.pagerank_exact(nodes, nbrs, Fraction(17, 20), multi)
            assert sum(p.values()) == 1 and all(x > 0 for x in p.values())
            assert O.pagerank_step(nodes, O.arcs(nodes, nbrs, multi), p, Fraction(17, 20)) == p


def run(ctx: Ctx):
    from vf.prove import prove
    prove(ctx, ["specs.misc"], "C15")  # deductive part (specs/misc.py)
    from vf.pool import pmap
    use_repo()
    try:
        oracle_selfcheck(ctx)
    except AssertionError:
        import traceback
        ctx.defects.append("oracle self-check failed: " + traceback.format_exc()[-600:])
        return
    q = ctx.quick
    seed = ctx.seed
    tasks = []
    n1 = 6 if q else 7
    for n in range(0, n1 + 1):
        tot = 1 << (n * (n - 1) // 2)
        tasks += [("S1", n, lo, hi) for lo, hi in chunks(tot, 512 if n < 7 else 2048)]
    ctx.scope("S1 all labelled simple graphs, symmetric sorted lists", n=f"0..{n1}", graphs=sum(1 << (n * (n - 1) // 2) for n in range(n1 + 1)),
              functions="articulation_points, bridges, kcore_decomposition, kcore(k=0..max+1; -1 too for n<=4), louvain(resolution 0.5,1,2); "
                        "n=7: kcore(k=max,max+1), louvain at one of the three resolutions (rotating)", exhaustive=True)
    for n in range(2, 5):
        tot = 1 << (n * (n - 1) // 2)
        tasks += [("S2x", n, lo, hi) for lo, hi in chunks(tot, 4)]
    ctx.scope("S2x all simple graphs x every order of every neighbour list", n="2..4", exhaustive=True)
    k5, k6 = (4, 1) if q else (40, 4)
    tasks += [("S2r", 5, lo, hi, k5, seed, (1.0, 2.0)) for lo, hi in chunks(1 << 10, 32)]
    tasks += [("S2r", 6, lo, hi, k6, seed, () if q else (1.0, 2.0)) for lo, hi in chunks(1 << 15, 512)]
    ctx.scope("S2r simple graphs under reversed lists, reversed node order and random relabelling/shuffles", n="5,6",
              random_variants_per_graph={"5": k5, "6": k6}, louvain="n=5 always; n=6 thorough tier only")
    for n in range(1, 5):
        tot = 1 << (n * n)
        tasks += [("S3", n, lo, hi, q and n == 4) for lo, hi in chunks(tot, 256)]
    ctx.scope("S3 every neighbour function (N(v) any subset of the nodes: asymmetric lists, self loops)", n="1..4",
              presentations=sum(1 << (n * n) for n in range(1, 5)),
              functions="all five undirected functions on the symmetric closure; pagerank damping 0.5/0.85/0.99 (max_iter 20000) and defaults; "
                        "pagerank_edges(backend='python')" + ("; quick tier at n=4: one of the three dampings per presentation (rotating), "
                        "louvain resolution 1,2, pagerank_edges on every 4th" if q else ""), exhaustive=True)
    k4 = 3 if q else 40
    tasks += [("S4", 5, lo, hi, k4, seed) for lo, hi in chunks(1 << 10, 32)]
    ctx.scope("S4 simple graphs on 5 nodes, random asymmetric/duplicated/self-looped/shuffled presentations", per_graph=k4)
    r5 = 1600 if q else 24000
    tasks += [("S5", i, 50, seed) for i in range(r5 // 50)]
    ctx.scope("S5 structured random graphs (tree, tree+chords, cactus, clique chain, G(n,p), union, bipartite, ladder)", n="6..14 incl. isolated",
              runs=r5, damping="0.01..0.999", resolution="0.01..10", tol="default,1e-3,1e-9,1e-12",
              features="asymmetric lists, duplicates, self loops, foreign neighbours, string labels, shuffled node/neighbour order")
    # heavy tasks first
    order = {"S3": 0, "S1": 1, "S5": 2, "S2r": 3, "S4": 4, "S2x": 5}
    tasks.sort(key=lambda t: (order[t[0]], -t[1] if isinstance(t[1], int) else 0))
    import os
    c0 = os.times()
    results = pmap(work, tasks, chunksize=1)
    c1 = os.times()
    ctx.notes["cpu_s_workers"] = round((c1.children_user - c0.children_user) + (c1.user - c0.user), 1)
    keys = set()
    fail_counts = {}
    ratio = 0.0
    samples = []
    cases = n_asym = 0
    for acc in results:
        n_asym += acc["asym"]
        ctx.evaluations += acc["evals"]
        cases += acc["cases"]
        keys.update(acc["keys"])
        ratio = max(ratio, acc["ratio"])
        for o, c in acc["fail_counts"].items():
            fail_counts[o] = fail_counts.get(o, 0) + c
        if len(samples) < 8:
            samples += acc["samples"][:1]
    kept = {}
    allf = [f for acc in results for f in acc["fails"]]
    allf.sort(key=lambda f: (len(f[1]["nodes"]), sum(len(l) for l in f[1]["nbrs"])))  # smallest first
    for obl, case, detail in allf:
        kept[obl] = kept.get(obl, 0) + 1
        if kept[obl] <= CAP:
            ctx.violation(obl, case, detail)
    ctx.count(0, keys, samples)
    ctx.notes["presentations_evaluated"] = cases
    ctx.notes["presentations_with_asymmetric_lists"] = n_asym
    ctx.notes["failing_evaluations_by_obligation"] = fail_counts
    ctx.notes["pagerank_plain_residual_over_tol_max_seen"] = round(ratio, 4)
    ctx.rule = ("case = presentation (node list order, neighbour lists incl. order/duplicates/self loops) evaluated with every function/config of "
                "its scope and compared with the brute-force definition on the intended graph; evaluations = function calls compared; "
                "non-trivial = the intended graph has at least one edge (arc); distinct = different (node list, neighbour lists, configuration plan)")
    ctx.assumptions += [
        "G1 intended undirected graph of a neighbour function = simple symmetric closure: {u,v} is an edge iff u != v and (v in N(u) or u in N(v)) "
        "(module docstrings: 'Treats graph as undirected', louvain: 'edges in both directions are counted once'; kcore and louvain build exactly "
        "this). Violations that occur only on asymmetric lists carry the obligation suffix [asymmetric-lists]",
        "G2 duplicate neighbours denote the same edge; self loops and neighbours outside the node list add nothing to an undirected graph "
        "(degree, connectivity, modularity); the statement does not pin a multigraph reading and none is demanded",
        "G3 PageRank graph: arcs (u,v) for v in N(u); self loops are arcs; duplicate neighbours may be read as parallel arcs or as one arc "
        "(either reading satisfying the equation is accepted)",
        "E1 'satisfy the equation to within the tolerance' = the result p is G(q) for some q with ||p-q||_inf <= tol (L-inf stopping rule), checked "
        "through its exact consequence ||p-G(p)||_inf <= tol*max(1, d*max_v max{sum_u M[v][u]x_u : |x|<=1, sum x = 0}) + 1e-12; the plain bound "
        "||p-G(p)||_inf <= tol is NOT demanded (the statement fixes neither norm nor iterate; max ratio seen is in "
        "coverage.pagerank_plain_residual_over_tol_max_seen)",
        "E2 the equation clause is demanded of results whose status is not MAX_ITER (max_iter is a documented cap and is reported); "
        "non-negativity, domain and sum 1 (+-1e-9) are demanded always",
        "E3 modularity equality within 1e-9 (float summation order); graphs without edges: modularity undefined, only the partition is checked",
        "nodes are distinct; neighbour functions are pure",
    ]
    ctx.trusted += ["oracles/c15_graph.py (brute-force definitions over Fractions; self-checked on hand-computed graphs at start)"]


def replay(rec) -> int:
    use_repo()
    signal.signal(signal.SIGVTALRM, _alarm)
    case = rec["case"]
    signal.setitimer(signal.ITIMER_VIRTUAL, 120)
    try:
        try:
            bad = eval_case(case["fn"], case["nodes"], case["nbrs"], case["params"])
        finally:
            signal.setitimer(signal.ITIMER_VIRTUAL, 0)
    except _Timeout:
        bad = [("returns", "no result after 120 s of CPU time")]
    except Exception as e:
        bad = [("returns", f"raised {type(e).__name__}: {e}")]
    print("replay:", case["fn"], "nodes", case["nodes"], "nbrs", case["nbrs"], case["params"])
    print("  ->", bad or "no violation")
    return 1 if bad else 0

"""C15 - cut vertices, bridges, k-cores, PageRank and Louvain obey their definitions (bounded back end).

A *case* is a presentation of a graph: (node list, neighbour lists aligned with it).  Every case is run
through the real functions of the tree under check and compared with oracles/c15_graph.py (brute force from
the definitions, integers / Fractions).

Scopes (see run()):
  S1  all labelled simple graphs, n <= 6 (quick) / 7 (thorough), symmetric sorted neighbour lists
  S2  the same graphs under other visiting orders (n <= 4: every neighbour order; n = 5, 6: reversed + random
      node / neighbour orders)
  S3  every neighbour function on n <= 4 nodes (each N(v) any subset of the nodes: all digraphs with self
      loops = all asymmetric presentations with self loops); also the PageRank digraph scope
  S4  simple graphs on 5 nodes, random asymmetric / duplicated / self-looped / shuffled presentations
  S5  seeded structured graphs on 6..12 nodes (trees, cacti, clique chains, G(n,p), unions + isolated nodes),
      random presentations, random damping / resolution / tolerance
  S6  size ladder: 11 .. 3000 (thorough: 5000) nodes, families whose cut vertices / bridges / components (and, for
      disjoint unions, core numbers) are known by construction (oracles/c15_big.py: block trees, bow-ties, flowers,
      cycle chains, paths, cycles, caterpillars, stars, wheels, prisms, cliques) + sparse G(n, c/n); judged by two
      independent linear-time oracles (low-point DFS, chain decomposition) and work-list peeling, which are themselves
      compared with the removal-based brute force on every presentation of S1..S5 and spot-checked on every S6 instance
  S7  history mode: one node list object and one neighbour callable reused over a sequence of calls (each sequence in
      one process that starts pristine), the graph edited in place between calls; every answer judged against the
      oracle for the graph as it is at that call, repeated calls, and calls compared with the same call made alone in
      a fresh process
  S8  fine-grained numerics inside the quantifier: damping / tolerance / resolution at dyadic gaps (2^-40 .. 2^-36)
      around 0, 1/2, 0.85, 1, exact modularity-gain ties, tolerances 0 / 1e-300 / >= 1, max_iter 1..3 and 100/101
  S9  presentation diversity (checks/C15_round3.py): the generators of S1/S3/S5/S6 under unusual but legal node labels (None, falsy
      values, tuples, pairs whose head is a node, frozensets, "1" next to 1, ints mixed with floats), fresh equal copies of labels
      (1 / 1.0 / True), container kinds for `nodes` and for the neighbour lists (persistent caller-owned lists, tuples, deques, dict
      views, generators, iter, map), kinds of neighbour callables; oracle on the integer instance mapped to the labels; frame clause
      'caller-owned inputs unchanged' and 'the same call repeated gives the same answer'
"""
from __future__ import annotations

import itertools
import math
import os
import pickle
import random
import signal
import struct
import subprocess
import sys
from fractions import Fraction

from vf.core import Ctx, use_repo

LEVEL = "exploration"
P = "C15"
RES = (0.5, 1.0, 2.0)
DAMP = (0.5, 0.85, 0.99)
FLOAT_SLACK = Fraction(1, 10 ** 13)
SUM_TOL = Fraction(1, 10 ** 9)
MOD_TOL = Fraction(1, 10 ** 9)
CAP = 25  # violations kept per obligation per task (all are counted)
BIG = 40  # presentations with more nodes than this are judged by the linear-time oracles (oracles/c15_big.py)
UND = ("articulation_points", "bridges", "kcore_decomposition", "kcore", "louvain")


class _Timeout(Exception):
    pass


def _alarm(signum, frame):
    raise _Timeout()


# ------------------------------------------------------------------ helpers
def mk_nb(nodes, nbrs):
    idx = {v: i for i, v in enumerate(nodes)}
    return lambda v: list(nbrs[idx[v]])


def is_asym(nodes, nbrs):
    """some u != v (both nodes) with v in N(u) but u not in N(v)."""
    ns = set(nodes)
    sets = {v: set(l) for v, l in zip(nodes, nbrs)}
    for v in nodes:
        for w in sets[v]:
            if w != v and w in ns and v not in sets[w]:
                return True
    return False


def _srt(xs):
    return sorted(xs, key=repr)


def _diff(got, exp, what):
    """readable difference of two collections (full for small ones, a summary beyond)."""
    try:
        got = set(got)
    except TypeError:
        return f"returned {got!r}"
    if len(got) + len(exp) <= 24:
        return f"returned {_srt(got)}, {what} gives {_srt(exp)}"
    miss, extra = exp - got, got - exp
    what += " (evaluated by the cross-validated linear-time oracle)"
    return (f"{len(miss)} missing (first: {_srt(miss)[:5]}), {len(extra)} spurious (first: {_srt(extra)[:5]}); "
            f"{what} gives {len(exp)} elements, {len(got)} were returned")


def oracle_und(nodes, nbrs, pre, what):
    """oracle value `what` in {adj, cut, bridges, core} of the intended undirected graph, cached in `pre`: brute force
    from the definition up to BIG nodes, the linear-time oracles (cross-validated, see xcheck) beyond."""
    from oracles import c15_big as B
    from oracles import c15_graph as O
    if "adj" not in pre:
        pre["adj"] = O.closure(nodes, nbrs)
    if what not in pre:
        adj = pre["adj"]
        if len(nodes) <= BIG:
            pre[what] = {"cut": O.cut_vertices, "bridges": O.bridge_edges, "core": O.core_numbers}[what](adj)
        elif what == "core":
            pre["core"] = B.core_numbers_peel(adj)
        else:
            pre["cut"], pre["bridges"], pre["comps"] = B.lowpoint(adj)
    return pre[what]


def xcheck(nodes, pre, acc, inst=None, rng=None):
    """validate the linear-time oracles on this presentation (a disagreement is a checker defect, never a violation):
    small presentations: against the removal / repeated-deletion brute force; large ones: low-point DFS against chain
    decomposition, both against the by-construction answer when there is one, and against the removal definition on
    sampled vertices and edges."""
    from oracles import c15_big as B
    from oracles import c15_graph as O
    adj = pre["adj"]
    cut, br, comps = B.lowpoint(adj)
    cut2, br2 = B.chains(adj)
    core = B.core_numbers_peel(adj)
    why = []
    if cut != cut2 or br != br2:
        why.append("low-point DFS and chain decomposition disagree")
    if len(nodes) <= BIG:
        if cut != pre["cut"] or br != pre["bridges"] or comps != O.n_components(adj):
            why.append("linear-time cut vertices / bridges / components differ from the removal-based brute force")
        if core != pre["core"]:
            why.append("work-list core numbers differ from the repeated-scan brute force")
    else:
        pre.update(cut=cut, bridges=br, core=core, comps=comps)
        if comps != B.n_components(adj):
            why.append("component count")
        if inst is not None:
            if inst.get("cut") is not None and (cut != inst["cut"] or br != inst["bridges"] or comps != inst["comps"]):
                why.append("linear-time oracles differ from the by-construction answer of family " + str(inst.get("family")))
            if inst.get("core") is not None and core != inst["core"]:
                why.append("work-list core numbers differ from the by-construction core numbers of family " + str(inst.get("family")))
        if rng is not None:
            vs = list(adj)
            probe = rng.sample(vs, min(6, len(vs))) + rng.sample(_srt(cut), min(4, len(cut)))
            for v in probe:
                if (O.n_components(adj, skip_vertex=v) > comps) != (v in cut):
                    why.append(f"vertex {v!r}: removal definition contradicts the linear oracle")
            es = [frozenset((v, w)) for v in rng.sample(vs, min(6, len(vs))) for w in list(adj[v])[:1]] + rng.sample(_srt(br), min(4, len(br)))
            for e in es:
                e = frozenset(e)
                if (O.n_components(adj, skip_edge=e) > comps) != (e in br):
                    why.append(f"edge {_srt(e)}: removal definition contradicts the linear oracle")
    for w in why:
        acc["oracle_defects"].append(f"{w} (n={len(nodes)}, nodes[:8]={list(nodes)[:8]!r})")
    acc["xchecked"] += 1


# ------------------------------------------------------------------ one function on one presentation
def eval_case(fn, nodes, nbrs, params, pre=None, via=None, out=None):
    """Run `fn` of the tree under check on the presentation; return [(obligation suffix, detail)].
    `pre` caches oracle values of this presentation between calls (closure, cut vertices, bridges, core numbers).
    `via` = (node list object, neighbour callable) to call with (history mode: the caller's long-lived objects) instead of
    a fresh copy / a fresh callable; the oracle always works on the snapshot (nodes, nbrs).
    `out`, when given, receives out["canon"] = order-independent text of the result (compared between processes)."""
    from oracles import c15_graph as O
    bad = []
    NODES, nb = via if via is not None else (list(nodes), mk_nb(nodes, nbrs))
    pre = pre if pre is not None else {}
    out = out if out is not None else {}
    if fn in UND:
        adj = oracle_und(nodes, nbrs, pre, "adj")
    if fn == "articulation_points":
        from solvor.articulation import articulation_points
        sol = articulation_points(NODES, nb).solution
        out["canon"] = repr(_srt(sol)) if isinstance(sol, (set, frozenset)) else repr(sol)
        exp = oracle_und(nodes, nbrs, pre, "cut")
        if not isinstance(sol, (set, frozenset)) or set(sol) != exp:
            bad.append(("ensures:cut-vertices", _diff(sol, exp, "removal-definition")))
    elif fn == "bridges":
        from solvor.articulation import bridges
        sol = bridges(NODES, nb).solution
        out["canon"] = repr(_srt(sol)) if isinstance(sol, list) else repr(sol)
        exp = oracle_und(nodes, nbrs, pre, "bridges")
        ok_shape = isinstance(sol, list) and all(isinstance(e, tuple) and len(e) == 2 for e in sol)
        if not ok_shape:
            bad.append(("ensures:bridges", f"result is not a list of pairs: {sol!r}"))
        else:
            got = [frozenset(e) for e in sol]
            if len(set(got)) != len(got):
                bad.append(("ensures:bridges", f"an edge is reported twice: {sol!r}"))
            elif set(got) != exp:
                bad.append(("ensures:bridges", _diff([tuple(_srt(e)) for e in got], {tuple(_srt(e)) for e in exp}, "removal-definition")))
            if any(not (e[0] < e[1]) for e in sol):
                bad.append(("ensures:canonical-order", f"edge not given as (min,max): {[e for e in sol if not (e[0] < e[1])][:5]!r}"))
    elif fn == "kcore_decomposition":
        from solvor.kcore import kcore_decomposition
        sol = kcore_decomposition(NODES, nb).solution
        out["canon"] = repr(_srt(sol.items())) if isinstance(sol, dict) else repr(sol)
        exp = oracle_und(nodes, nbrs, pre, "core")
        if not isinstance(sol, dict) or sol != exp:
            bad.append(("ensures:core-numbers", _diff(sol.items() if isinstance(sol, dict) else sol, set(exp.items()), "peeling-definition (node, core number)")))
    elif fn == "kcore":
        from solvor.kcore import kcore
        k = params["k"]
        sol = kcore(NODES, nb, k).solution
        out["canon"] = repr(_srt(sol)) if isinstance(sol, (set, frozenset)) else repr(sol)
        core = oracle_und(nodes, nbrs, pre, "core")
        exp = {v for v in nodes if core[v] >= k}
        if not isinstance(sol, (set, frozenset)) or set(sol) != exp:
            bad.append(("ensures:core-at-least-k", f"k={k}: " + _diff(sol, exp, "the set of nodes with core number >= k")))
    elif fn == "louvain":
        from solvor.community import louvain
        res = params["resolution"]
        r = louvain(NODES, nb, resolution=res)
        sol = r.solution
        why = "result is not a list" if not isinstance(sol, list) else O.is_partition(nodes, sol)
        out["canon"] = repr((_srt(_srt(c) for c in sol) if not why else sol, r.objective))
        if why:
            bad.append(("ensures:partition", f"resolution={res!r}: {why}: {repr(sol)[:400]}"))
        else:
            q = O.modularity(adj, sol, res)
            if q is not None:  # graphs without edges: modularity undefined, nothing demanded
                obj = r.objective
                lim = MOD_TOL * max(1, Fraction(res))  # E3: absolute 1e-9, scaled with the resolution above 1
                if not isinstance(obj, (int, float)) or not math.isfinite(obj) or abs(Fraction(obj) - q) > lim:
                    bad.append(("ensures:modularity", f"resolution={res!r}: reported {obj!r}, modularity of the returned partition "
                                                      f"{repr([_srt(c) for c in sol])[:400]} is {float(q)!r}"))
    elif fn in ("pagerank", "pagerank_edges"):
        from solvor.types import Status
        kw = {}
        for k in ("damping", "max_iter", "tol"):
            if params.get(k) is not None:
                kw[k] = params[k]
        d = params.get("damping") if params.get("damping") is not None else 0.85
        tol = params.get("tol") if params.get("tol") is not None else 1e-6
        if fn == "pagerank":
            from solvor.pagerank import pagerank
            r = pagerank(NODES, nb, **kw)
        else:
            from solvor.pagerank import pagerank_edges
            n = len(nodes)
            assert list(nodes) == list(range(n))
            edges = [(u, w) for u in range(n) for w in nbrs[u]]
            r = pagerank_edges(n, edges, backend="python", **kw)
        sol = r.solution
        out["canon"] = repr((_srt(sol.items()) if isinstance(sol, dict) else sol, r.status.name))
        if not isinstance(sol, dict) or set(sol.keys()) != set(nodes) or len(sol) != len(nodes):
            bad.append(("ensures:domain", f"scores are not given for exactly the node set: {repr(sol)[:400]}"))
            return bad
        if not nodes:
            return bad
        vals = [sol[v] for v in nodes]
        if any((not isinstance(x, (int, float))) or (not math.isfinite(x)) for x in vals):
            bad.append(("ensures:nonnegative", f"non-finite score: {repr(sol)[:400]}"))
            return bad
        if any(x < 0 for x in vals):
            bad.append(("ensures:nonnegative", f"negative score: {repr(sol)[:400]}"))
        s = sum((Fraction(x) for x in vals), Fraction(0))
        if abs(s - 1) > SUM_TOL:
            bad.append(("ensures:sums-to-1", f"scores sum to {float(s)!r}: {repr(sol)[:400]}"))
        if r.status != Status.MAX_ITER:
            verdicts = []
            for multi in (True, False):
                res = O.pagerank_residual(nodes, nbrs, sol, d, multi)
                lim = Fraction(tol) + FLOAT_SLACK
                if res > lim:  # graph-dependent factor of assumption E1 (computed only when the plain bound fails)
                    if len(nodes) <= BIG:
                        factor = O.pagerank_residual_bound(nodes, nbrs, d, multi)
                    else:
                        from oracles import c15_big as B
                        factor = B.pagerank_residual_bound_sparse(nodes, nbrs, d, multi)
                    lim = Fraction(tol) * max(Fraction(1), factor) + FLOAT_SLACK
                verdicts.append((res <= lim, res, lim))
                if res <= lim:
                    break
            if not any(v[0] for v in verdicts):
                res, lim = verdicts[0][1], verdicts[0][2]
                bad.append(("ensures:equation", f"damping={d!r} tol={tol!r}: max_v |p_v - G(p)_v| = {float(res):.3e} > allowed {float(lim):.3e} "
                                                f"(status {r.status.name}, {r.iterations} iterations): {repr(sol)[:400]}"))
    else:
        raise ValueError(fn)
    return bad


def plain_ratio(nodes, nbrs, params):
    """diagnostic only: plain residual / tol of a converged pagerank run (reported in the evidence notes)."""
    from oracles import c15_graph as O
    from solvor.pagerank import pagerank
    from solvor.types import Status
    kw = {k: params[k] for k in ("damping", "max_iter", "tol") if params.get(k) is not None}
    r = pagerank(list(nodes), mk_nb(nodes, nbrs), **kw)
    if r.status == Status.MAX_ITER or not nodes:
        return 0.0
    d = params.get("damping") or 0.85
    tol = params.get("tol") or 1e-6
    return float(O.pagerank_residual(nodes, nbrs, r.solution, d, True) / Fraction(tol))


def calls_for(nodes, nbrs, plan, pre, acc, inst=None, rng=None):
    """the (fn, params) list evaluated on one presentation under `plan` (fills `pre` with the oracle values and
    cross-validates the linear-time oracles on the way)."""
    calls = []
    if plan.get("und"):
        calls += [("articulation_points", {}), ("bridges", {}), ("kcore_decomposition", {})]
        oracle_und(nodes, nbrs, pre, "adj")
        if len(nodes) <= BIG:
            for what in ("cut", "bridges", "core"):
                oracle_und(nodes, nbrs, pre, what)
        xcheck(nodes, pre, acc, inst, rng)
        core = pre["core"]
        top = max(core.values()) if core else 0
        if plan.get("ktop"):  # lean plan (7-node graphs): only the two thresholds around the largest core number
            calls += [("kcore", {"k": top}), ("kcore", {"k": top + 1})]
        elif plan.get("kbig"):  # size ladder: low thresholds and the two around the largest core number
            calls += [("kcore", {"k": k}) for k in sorted({1, 2, top, top + 1})]
        else:
            calls += [("kcore", {"k": k}) for k in range(-1 if len(nodes) <= 4 else 0, top + 2)]
    for res in plan.get("res", ()):
        calls.append(("louvain", {"resolution": res}))
    for (d, mi, tol) in plan.get("pr", ()):
        calls.append(("pagerank", {"damping": d, "max_iter": mi, "tol": tol}))
    for (d, mi, tol) in plan.get("pre", ()):
        calls.append(("pagerank_edges", {"damping": d, "max_iter": mi, "tol": tol}))
    return calls


def guarded(thunk, budget=60):
    """run thunk() -> [(suffix, detail)] under a CPU-time budget (ITIMER_VIRTUAL: the verdict does not depend on how busy
    the machine is); the timer is disarmed in the inner finally so that a late signal is still caught by the outer except."""
    signal.setitimer(signal.ITIMER_VIRTUAL, budget)
    try:
        try:
            return thunk()
        finally:
            signal.setitimer(signal.ITIMER_VIRTUAL, 0)
    except _Timeout:
        return [("returns", f"no result after {budget} s of CPU time")]
    except RecursionError:
        return [("returns[recursion-depth]", f"RecursionError (recursion limit {sys.getrecursionlimit()})")]
    except Exception as e:  # the functions are total on these inputs
        return [("returns", f"raised {type(e).__name__}: {e}")]


def record(acc, fn, asym, bad, case, tag=""):
    for suffix, detail in bad:
        obl = f"{P}/{fn}/{suffix}"
        if asym and fn in UND and not suffix.startswith("returns[recursion-depth]"):
            obl += "[asymmetric-lists]"
        obl += tag
        acc["fail_counts"][obl] = acc["fail_counts"].get(obl, 0) + 1
        if acc["fail_counts"][obl] <= CAP:
            acc["fails"].append((obl, case, detail))


def eval_presentation(nodes, nbrs, plan, acc, inst=None, rng=None, label=None):
    """evaluate every planned call; record into the task accumulator."""
    asym = is_asym(nodes, nbrs)
    pre = {}
    for fn, params in calls_for(nodes, nbrs, plan, pre, acc, inst, rng):
        case = {"fn": fn, "nodes": list(nodes), "nbrs": [list(l) for l in nbrs], "params": params}
        if label:
            case["family"] = label
        acc["evals"] += 1
        bad = guarded(lambda: eval_case(fn, nodes, nbrs, params, pre))
        record(acc, fn, asym, bad, case)
    key = hash((tuple(nodes), tuple(tuple(l) for l in nbrs), repr(sorted(plan.items()))))
    acc["cases"] += 1
    acc["asym"] += 1 if asym else 0
    ns = set(nodes)
    if any(w in ns and (w != v or not plan.get("und")) for v, l in zip(nodes, nbrs) for w in l):
        acc["keys"].append(key)
    if len(acc["samples"]) < 2 and len(nodes) >= 3:
        if len(nodes) <= BIG:
            acc["samples"].append({"nodes": list(nodes), "nbrs": [list(l) for l in nbrs], "plan": {k: v for k, v in plan.items()}})
        elif label:
            acc["samples"].append(dict(label, plan={k: v for k, v in plan.items()}))


# ------------------------------------------------------------------ generators
def pairs_of(n):
    return [(i, j) for i in range(n) for j in range(i + 1, n)]


def simple_graph(n, mask):
    nbrs = [[] for _ in range(n)]
    for b, (i, j) in enumerate(pairs_of(n)):
        if mask >> b & 1:
            nbrs[i].append(j)
            nbrs[j].append(i)
    return nbrs


def edges_of_mask(n, mask):
    return [e for b, e in enumerate(pairs_of(n)) if mask >> b & 1]


def present(rng, n, edges, asym=0.0, dup=0.0, loops=0.0, foreign=0.0, strings=False, isolated=0, ret_labels=False):
    """random presentation of the simple graph (n, edges) plus `isolated` extra nodes."""
    total = n + isolated
    labels = list(range(total))
    rng.shuffle(labels)  # vertex i of the abstract graph gets label labels[i]
    if strings:
        labels = ["n%02d" % x for x in labels]
    lists = {lab: [] for lab in labels}
    for (i, j) in edges:
        a, b = labels[i], labels[j]
        m = rng.random()
        if m < asym / 2:
            lists[a].append(b)
        elif m < asym:
            lists[b].append(a)
        else:
            lists[a].append(b)
            lists[b].append(a)
    for lab in labels:
        l = lists[lab]
        if l and rng.random() < dup:
            for _ in range(rng.randint(1, 3)):
                l.append(rng.choice(l))
        if rng.random() < loops:
            l.extend([lab] * rng.randint(1, 2))
        if rng.random() < foreign:
            l.append("zz" if strings else 99 + 10 * total)
        rng.shuffle(l)
    nodes = list(labels)
    rng.shuffle(nodes)
    if ret_labels:
        return nodes, [lists[v] for v in nodes], labels
    return nodes, [lists[v] for v in nodes]


def structured(rng):
    """(n, edges) from families built to contain cut vertices, bridges, nested cores, several components."""
    kind = rng.choice(["tree", "tree+", "cactus", "cliques", "gnp", "gnp", "union", "bipartite", "ladder"])
    n = rng.randint(6, 12)
    E = set()

    def add(a, b):
        if a != b:
            E.add((min(a, b), max(a, b)))

    if kind in ("tree", "tree+"):
        for v in range(1, n):
            add(v, rng.randrange(v))
        if kind == "tree+":
            for _ in range(rng.randint(1, 4)):
                add(rng.randrange(n), rng.randrange(n))
    elif kind == "cactus":  # cycles glued at shared vertices, some pendant edges
        used = 1
        while used < n:
            k = min(rng.randint(1, 4), n - used)
            hub = rng.randrange(used)
            cyc = [hub] + list(range(used, used + k))
            for a, b in zip(cyc, cyc[1:]):
                add(a, b)
            if k >= 2:
                add(cyc[-1], hub)
            used += k
    elif kind == "cliques":  # cliques joined by single edges or shared vertices
        used = 0
        prev = None
        while used < n:
            k = min(rng.randint(2, 5), n - used)
            c = list(range(used, used + k))
            for a in c:
                for b in c:
                    add(a, b)
            if prev is not None:
                add(rng.choice(prev), rng.choice(c))
                if rng.random() < 0.3:
                    add(rng.choice(prev), rng.choice(c))
            prev = c
            used += k
    elif kind == "gnp":
        p = rng.choice([0.12, 0.2, 0.3, 0.5, 0.8])
        for a in range(n):
            for b in range(a + 1, n):
                if rng.random() < p:
                    add(a, b)
    elif kind == "union":
        h = n // 2
        for v in range(1, h):
            add(v, rng.randrange(v))
        for a in range(h, n):
            for b in range(a + 1, n):
                if rng.random() < 0.6:
                    add(a, b)
    elif kind == "bipartite":
        h = rng.randint(1, n - 1)
        for a in range(h):
            for b in range(h, n):
                if rng.random() < 0.7:
                    add(a, b)
    else:  # ladder with some rungs missing
        h = n // 2
        for a in range(h - 1):
            add(a, a + 1)
            add(h + a, h + a + 1)
        for a in range(h):
            if rng.random() < 0.6:
                add(a, h + a)
    return n, sorted(E), kind


# ------------------------------------------------------------------ S6: size ladder
LADDER_Q = (11, 33, 65, 130, 260, 501, 520, 600, 1000, 1025, 2000, 3000)
LADDER_Q2 = (130, 501, 600, 1025, 3000)  # sizes that get a second, randomly presented instance in the quick tier
LADDER_T = (10, 12, 33, 34, 64, 65, 66, 129, 131, 140, 257, 260, 499, 500, 501, 502, 513, 550, 600, 999, 1001, 1024, 1025,
            1500, 2048, 2049, 2500, 3000, 5000)
GNP_C = (0.8, 1.5, 3.0)


def ladder_instance(fam, n, rep, seed):
    """(nodes, nbrs, inst in label space, label for the evidence) of one size-ladder instance."""
    from oracles import c15_big as B
    rng = random.Random(f"{seed}/S6/{fam}/{n}/{rep}")
    if fam.startswith("gnp"):
        inst = {"n": n, "edges": B.gnp_sparse(rng, n, float(fam[3:])), "cut": None, "core": None, "family": fam}
    else:
        inst = B.family(rng, fam, n)
    style = "identity" if rep == 0 else rng.choice(["shuffled", "shuffled", "messy", "strings", "one-sided"])
    nn = inst["n"]
    if style == "identity":
        labels = list(range(nn))
        nodes = list(labels)
        nbrs = [[] for _ in range(nn)]
        for a, b in inst["edges"]:
            nbrs[a].append(b)
            nbrs[b].append(a)
    else:
        kw = {"shuffled": {}, "messy": dict(asym=0.3, dup=0.2, loops=0.1, foreign=0.05), "strings": dict(strings=True),
              "one-sided": dict(asym=1.0)}[style]
        nodes, nbrs, labels = present(rng, nn, inst["edges"], ret_labels=True, **kw)
    li = dict(inst)
    li.pop("edges")
    if inst.get("cut") is not None:
        li["cut"] = {labels[v] for v in inst["cut"]}
        li["bridges"] = {frozenset(labels[v] for v in e) for e in inst["bridges"]}
    if inst.get("core") is not None:
        li["core"] = {labels[v]: c for v, c in enumerate(inst["core"])}
    label = {"scope": "S6", "family": fam, "n": nn, "rep": rep, "style": style, "edges": len(inst["edges"])}
    return nodes, nbrs, li, label, rng


# ------------------------------------------------------------------ S7: history mode
NB_KINDS = ("lambda_getitem", "bound_getitem", "lambda_get", "callable_object")
HIST_FNS = ("articulation_points", "bridges", "kcore_decomposition", "kcore", "louvain", "pagerank")


class _NbObj:
    def __init__(self, g):
        self.g = g

    def __call__(self, v):
        return self.g[v]


def make_nb(kind, G):
    if kind == "lambda_getitem":
        return lambda v: G[v]
    if kind == "bound_getitem":
        return G.__getitem__
    if kind == "lambda_get":
        return lambda v: G.get(v, [])
    return _NbObj(G)


def apply_op(nodes, G, op):
    """in-place edit of the caller's long-lived objects (the node list and the dict the neighbour callable reads)."""
    k = op[0]
    if k == "add_edge":
        _, a, b, how = op
        if how in ("both", "a"):
            G[a].append(b)
        if how in ("both", "b"):
            G[b].append(a)
    elif k == "del_edge":
        _, a, b = op
        G[a][:] = [x for x in G[a] if x != b]
        G[b][:] = [x for x in G[b] if x != a]
    elif k == "add_node":
        _, v, l, pos = op
        nodes.insert(pos, v)
        G[v] = list(l)
    elif k == "del_node":
        _, v = op
        nodes.remove(v)
        del G[v]
    elif k == "set_nbrs":
        _, v, l = op
        G[v][:] = l
    elif k == "order":
        nodes[:] = op[1]
    elif k == "rewire":
        G.clear()
        for v, l in op[1]:
            G[v] = list(l)
    elif k == "rename":
        _, old, new = op
        nodes[nodes.index(old)] = new
        G[new] = G.pop(old)
        for l in G.values():
            l[:] = [new if x == old else x for x in l]
    else:
        raise ValueError(k)


def gen_history(rng):
    """a history case: initial presentation + a list of ops (in-place edits and calls), all concrete and JSON-able."""
    n, ed, _ = structured(rng)
    strings = rng.random() < 0.15
    nodes, nbrs = present(rng, n, ed, asym=rng.choice([0.0, 0.0, 0.4]), dup=rng.choice([0.0, 0.0, 0.3]), loops=rng.choice([0.0, 0.2]),
                          strings=strings)
    case = {"mode": "history", "nb_kind": rng.choice(NB_KINDS), "init": {"nodes": list(nodes), "nbrs": [list(l) for l in nbrs]}, "ops": []}
    nodes = list(nodes)
    G = {v: list(l) for v, l in zip(nodes, nbrs)}
    focus = rng.choice(HIST_FNS) if rng.random() < 0.6 else None  # most sequences keep asking one function about the edited graph
    fresh_label = [1000]
    last_call = None

    def new_label():
        fresh_label[0] += 1
        return ("m%d" % fresh_label[0]) if strings else fresh_label[0]

    def a_call():
        fn = focus if focus and rng.random() < 0.85 else rng.choice(HIST_FNS)
        if fn == "kcore":
            return ["call", fn, {"k": rng.choice([0, 1, 1, 2, 2, 3, 3, 4])}]
        if fn == "louvain":
            return ["call", fn, {"resolution": rng.choice([0.5, 1.0, 1.0, 2.0])}]
        if fn == "pagerank":
            return ["call", fn, {"damping": rng.choice([0.5, 0.85]), "max_iter": 2000, "tol": None}]
        return ["call", fn, {}]

    def an_edit():
        kind = rng.choice(["add_edge", "add_edge", "del_edge", "del_edge", "del_edge", "add_node", "del_node", "set_nbrs", "order",
                           "rewire", "rename"])
        if kind == "add_edge" and len(nodes) >= 2:
            a, b = rng.sample(nodes, 2)
            return ["add_edge", a, b, rng.choice(["both", "both", "a", "b"])]
        if kind == "del_edge":
            cand = [(v, w) for v in nodes for w in G[v] if w != v and w in G]
            if cand:
                a, b = rng.choice(cand)
                return ["del_edge", a, b]
        if kind == "add_node" and len(nodes) < 14:
            v = new_label()
            l = rng.sample(nodes, min(len(nodes), rng.randint(0, 3)))
            return ["add_node", v, l, rng.randint(0, len(nodes))]
        if kind == "del_node" and len(nodes) > 3:
            return ["del_node", rng.choice(nodes)]
        if kind == "set_nbrs" and nodes:
            v = rng.choice(nodes)
            l = list(G[v])
            rng.shuffle(l)
            if l and rng.random() < 0.3:
                l.append(rng.choice(l))
            if rng.random() < 0.2:
                l.append(v)
            return ["set_nbrs", v, l]
        if kind == "order":
            o = list(nodes)
            rng.shuffle(o)
            return ["order", o if rng.random() < 0.7 else list(nodes)[::-1]]
        if kind == "rewire":  # a different graph on the same node labels, same dict object, same node list
            m = len(nodes)
            ed2 = [(i, j) for i in range(m) for j in range(i + 1, m) if rng.random() < rng.choice([0.15, 0.3, 0.5])]
            new = {v: [] for v in nodes}
            for i, j in ed2:
                new[nodes[i]].append(nodes[j])
                new[nodes[j]].append(nodes[i])
            return ["rewire", [[v, new[v]] for v in nodes]]
        if kind == "rename" and nodes:
            return ["rename", rng.choice(nodes), new_label()]
        return None

    for _ in range(rng.randint(8, 16)):
        r = rng.random()
        if r < 0.45:
            op = a_call()
            last_call = op
        elif r < 0.55 and last_call is not None:
            op = [last_call[0], last_call[1], dict(last_call[2])]  # the same call repeated
        else:
            op = an_edit()
            if op is None:
                continue
            apply_op(nodes, G, op)
        case["ops"].append(op)
    if not case["ops"] or case["ops"][-1][0] != "call":
        case["ops"].append(a_call())
    return case


def run_history(case, on_call=None):
    """execute a history case in this process; returns [(op index, fn, params, snapshot nodes, snapshot nbrs, bad, canon)]."""
    nodes = list(case["init"]["nodes"])
    G = {v: list(l) for v, l in zip(nodes, case["init"]["nbrs"])}
    nb = make_nb(case["nb_kind"], G)
    res = []
    for i, op in enumerate(case["ops"]):
        if op[0] != "call":
            apply_op(nodes, G, op)
            continue
        fn, params = op[1], op[2]
        sn, sl = list(nodes), [list(G[v]) for v in nodes]
        out = {}
        bad = guarded(lambda: eval_case(fn, sn, sl, params, None, (nodes, nb), out))
        res.append((i, fn, params, sn, sl, bad, out.get("canon")))
    return res


class Fresh:
    """client of a pristine server process (a new interpreter that has imported the tree under check and never called it);
    every request is executed in a child forked from that pristine state, i.e. in a fresh process."""

    def __init__(self):
        from vf.core import VERIF
        code = f"import sys; sys.path.insert(0, {VERIF!r}); from checks import C15; C15.fresh_server()"
        self.p = subprocess.Popen([sys.executable, "-c", code], stdin=subprocess.PIPE, stdout=subprocess.PIPE, cwd=VERIF)

    def ask(self, req):
        data = pickle.dumps(req)
        self.p.stdin.write(struct.pack("<I", len(data)) + data)
        self.p.stdin.flush()
        hdr = self.p.stdout.read(4)
        if len(hdr) < 4:
            return ("error", "fresh-process server died")
        return pickle.loads(self.p.stdout.read(struct.unpack("<I", hdr)[0]))

    def close(self):
        try:
            self.p.stdin.close()
            self.p.wait(timeout=30)
        except Exception:
            self.p.kill()


def _fresh_do(req):
    if req[0] == "call":
        _, fn, nodes, nbrs, params = req
        out = {}
        bad = guarded(lambda: eval_case(fn, nodes, nbrs, params, None, None, out))
        return ("ok", out.get("canon"), bad)
    if req[0] == "history":
        res = run_history(req[1])
        return ("ok", None, res[-1][5] if res else [])
    if req[0] == "history_all":
        return ("ok", None, run_history(req[1]))
    return ("error", "unknown request")


def fresh_server():
    """stdin/stdout loop of the pristine server: length-prefixed pickles; each request runs in a forked child."""
    use_repo()
    import solvor.articulation  # noqa: F401  imported, never called in this process
    import solvor.community  # noqa: F401
    import solvor.kcore  # noqa: F401
    import solvor.pagerank  # noqa: F401
    signal.signal(signal.SIGVTALRM, _alarm)
    inp, outp = sys.stdin.buffer, sys.stdout.buffer
    while True:
        hdr = inp.read(4)
        if len(hdr) < 4:
            return
        req = pickle.loads(inp.read(struct.unpack("<I", hdr)[0]))
        r, w = os.pipe()
        pid = os.fork()
        if pid == 0:
            try:
                os.close(r)
                try:
                    data = pickle.dumps(_fresh_do(req))
                except BaseException as e:  # noqa: BLE001
                    data = pickle.dumps(("error", repr(e)))
                with os.fdopen(w, "wb") as f:
                    f.write(data)
            finally:
                os._exit(0)
        os.close(w)
        with os.fdopen(r, "rb") as f:
            data = f.read()
        os.waitpid(pid, 0)
        outp.write(struct.pack("<I", len(data)) + data)
        outp.flush()


def shrink_history(fresh, case, suffixes):
    """greedy one-pass removal of ops that are not needed for the last call to fail (each trial in a fresh process)."""
    ops = list(case["ops"])
    j = len(ops) - 2
    while j >= 0:
        trial = dict(case, ops=ops[:j] + ops[j + 1:])
        ans = fresh.ask(("history", trial))
        if ans[0] == "ok" and {x[0] for x in ans[2]} & suffixes:
            ops = trial["ops"]
        j -= 1
    return dict(case, ops=ops)


def history_task(idx, count, seed, acc):
    rng = random.Random(f"{seed}/S7/{idx}")
    fresh = Fresh()
    shrunk = 0
    try:
        for _ in range(count):
            case = gen_history(rng)
            strings = any(isinstance(v, str) for v in case["init"]["nodes"])
            ans = fresh.ask(("history_all", case))  # the whole sequence runs in ONE fresh process: the case is self-contained
            if ans[0] != "ok":
                acc["oracle_defects"].append(f"history sequence could not be run: {ans[1]}")
                continue
            res = ans[2]
            acc["cases"] += 1
            for (i, fn, params, sn, sl, bad, canon) in res:
                acc["evals"] += 1
                asym = is_asym(sn, sl)
                if any(w in set(sn) for l in sl for w in l):
                    acc["keys"].append(hash(("S7", i, fn, repr(params), tuple(sn), tuple(tuple(l) for l in sl))))
                sub = dict(case, ops=case["ops"][:i + 1])
                if bad:
                    alone = fresh.ask(("call", fn, sn, sl, params))
                    if alone[0] == "ok" and not alone[2] and shrunk < 3:  # fails only after the earlier calls: minimise the sequence
                        shrunk += 1
                        sub = shrink_history(fresh, sub, {x[0] for x in bad})
                    tag = "[after-earlier-calls]" if alone[0] == "ok" and not alone[2] else ""
                    record(acc, fn, asym, bad, sub, tag)
                    continue
                if strings and sys.flags.hash_randomization:
                    continue  # string hashes differ between processes: iteration orders are not comparable
                if fn not in ("louvain", "pagerank") and i != len(case["ops"]) - 1:
                    continue  # the oracle pins these results completely; only the last call of a sequence is also run afresh
                ans = fresh.ask(("call", fn, sn, sl, params))
                acc["fresh"] += 1
                if ans[0] != "ok":
                    acc["oracle_defects"].append(f"fresh-process comparison failed: {ans[1]}")
                elif ans[1] != canon:
                    record(acc, fn, asym, [("history:same-as-fresh-process",
                                            f"call #{i} of the sequence returned {str(canon)[:300]}, the same call in a fresh process returns {str(ans[1])[:300]}")], sub)
            if len(acc["samples"]) < 1:
                acc["samples"].append({"scope": "S7", "nb_kind": case["nb_kind"], "init": case["init"], "ops": case["ops"][:6]})
    finally:
        fresh.close()


# ------------------------------------------------------------------ S8: fine-grained numerics
E40, E36 = 2.0 ** -40, 2.0 ** -36
NUM_DAMP = (E40, 2.0 ** -20, 1e-9, 0.5 - E40, 0.5 + E40, 0.85 - E36, 0.85 + E36, 0.85, 1 - 2.0 ** -10, 1 - 2.0 ** -7)
NUM_TOL = (None, 1e-9, 1e-9 * (1 - 2.0 ** -30), 1e-9 * (1 + 2.0 ** -30), E40, 1e-12, 1e-15, 1e-300, 0.0, 0.5, 1.0, 2.0)
NUM_ITER = (None, 1, 2, 3, 99, 100, 101, 20000)


def numeric_task(idx, count, seed, acc):
    rng = random.Random(f"{seed}/S8/{idx}")
    for _ in range(count):
        # PageRank: small digraphs with dangling nodes, self loops, parallel arcs
        n = rng.randint(2, 7)
        p = rng.choice([0.15, 0.3, 0.5, 0.9])
        nodes = list(range(n))
        nbrs = [[w for w in range(n) if rng.random() < p] for _ in range(n)]
        if rng.random() < 0.3:
            nbrs[rng.randrange(n)] = []
        if rng.random() < 0.2:
            v = rng.randrange(n)
            nbrs[v] = nbrs[v] + nbrs[v][:1]
        pr = tuple((rng.choice(NUM_DAMP), rng.choice(NUM_ITER), rng.choice(NUM_TOL)) for _ in range(4))
        eval_presentation(nodes, nbrs, {"pr": pr}, acc)
        # louvain: resolutions at and 2^-40 / 2^-36 around exact ties of the modularity gain e - res*d*s/(2m)
        if rng.random() < 0.5:
            n2, ed, _ = structured(rng)
        else:
            n2 = rng.randint(2, 6)
            ed = [e for e in pairs_of(n2) if rng.random() < 0.5]
        nodes2, nbrs2 = present(rng, n2, ed)
        m = len(ed)
        ress = [E40, 1 - E40, 1 + E40, 2 - E40, 2.0, 2 + E40, 1e-9, 1024.0, 2.0 ** 20]
        if m:
            for _ in range(4):
                e, d, sg = rng.randint(1, 3), rng.randint(1, 5), rng.randint(1, 8)
                tie = 2 * m * e / (d * sg)
                ress += [tie, tie * (1 - E40), tie * (1 + E40), tie * (1 + E36)]
        eval_presentation(nodes2, nbrs2, {"res": tuple(rng.sample(ress, 6))}, acc)


# ------------------------------------------------------------------ worker
PLAN_UND = {"und": True, "res": RES}
PR_STD = tuple((d, 20000, None) for d in DAMP)
PLAN_ALL4 = {"und": True, "res": RES, "pr": PR_STD + ((None, None, None),), "pre": ((0.85, 5000, None),)}


def work(task):
    from vf.core import use_repo
    use_repo()
    signal.signal(signal.SIGVTALRM, _alarm)
    acc = {"evals": 0, "cases": 0, "keys": [], "fails": [], "fail_counts": {}, "samples": [], "ratio": 0.0, "asym": 0,
           "oracle_defects": [], "xchecked": 0, "fresh": 0, "big": 0}
    scope = task[0]
    t0 = os.times()
    try:
        _work(task, scope, acc)
    finally:
        t1 = os.times()
        acc["cpu"] = (scope[:2], (t1.user - t0.user) + (t1.system - t0.system) + (t1.children_user - t0.children_user)
                      + (t1.children_system - t0.children_system))
    return acc


def _work(task, scope, acc):
    if scope == "S1":
        _, n, lo, hi = task
        nodes = list(range(n))
        for mask in range(lo, hi):
            plan = PLAN_UND if n <= 6 else {"und": True, "ktop": True, "res": (RES[mask % 3],)}
            eval_presentation(nodes, simple_graph(n, mask), plan, acc)
    elif scope == "S2x":  # every neighbour order
        _, n, lo, hi = task
        nodes = list(range(n))
        plan = {"und": True, "res": (1.0, 2.0)}
        for mask in range(lo, hi):
            base = simple_graph(n, mask)
            for combo in itertools.product(*[list(itertools.permutations(l)) for l in base]):
                eval_presentation(nodes, [list(c) for c in combo], plan, acc)
    elif scope == "S2r":  # reversed + random orders / labels
        _, n, lo, hi, k, seed, res = task
        rng = random.Random(f"{seed}/S2r/{n}/{lo}")
        plan = {"und": True, "res": res}
        for mask in range(lo, hi):
            base = simple_graph(n, mask)
            eval_presentation(list(range(n)), [l[::-1] for l in base], plan, acc)
            eval_presentation(list(range(n))[::-1], [l for l in base][::-1], plan, acc)
            ed = edges_of_mask(n, mask)
            for _ in range(k):
                nodes, nbrs = present(rng, n, ed)
                eval_presentation(nodes, nbrs, plan, acc)
    elif scope == "S3":
        _, n, lo, hi, lean = task
        nodes = list(range(n))
        cells = [(i, j) for i in range(n) for j in range(n)]
        for mask in range(lo, hi):
            nbrs = [[] for _ in range(n)]
            for b, (i, j) in enumerate(cells):
                if mask >> b & 1:
                    nbrs[i].append(j)
            plan = PLAN_ALL4
            if lean:  # quick tier, n = 4: one damping per mask (rotating), defaults always, pagerank_edges on every 4th
                plan = {"und": True, "res": (1.0, 2.0), "pr": ((DAMP[mask % 3], 20000, None), (None, None, None)),
                        "pre": ((0.85, 5000, None),) if mask % 4 == 0 else ()}
            eval_presentation(nodes, nbrs, plan, acc)
            if mask % 7 == 0:
                for d in DAMP:
                    acc["ratio"] = max(acc["ratio"], plain_ratio(nodes, nbrs, {"damping": d, "max_iter": 20000}))
    elif scope == "S4":
        _, n, lo, hi, k, seed = task
        rng = random.Random(f"{seed}/S4/{n}/{lo}")
        for mask in range(lo, hi):
            ed = edges_of_mask(n, mask)
            for _ in range(k):
                nodes, nbrs = present(rng, n, ed, asym=rng.choice([0.0, 0.3, 0.6, 1.0]), dup=rng.choice([0.0, 0.5]),
                                      loops=rng.choice([0.0, 0.4]))
                plan = {"und": True, "res": (rng.choice(RES),), "pr": ((rng.choice(DAMP), 20000, None),)}
                eval_presentation(nodes, nbrs, plan, acc)
    elif scope == "S5":
        _, idx, count, seed = task
        rng = random.Random(f"{seed}/S5/{idx}")
        for _ in range(count):
            n, ed, kind = structured(rng)
            sym = rng.random() < 0.5
            nodes, nbrs = present(rng, n, ed, asym=0.0 if sym else rng.choice([0.2, 0.5, 1.0]), dup=rng.choice([0.0, 0.0, 0.4]),
                                  loops=rng.choice([0.0, 0.0, 0.3]), foreign=rng.choice([0.0, 0.0, 0.15]),
                                  strings=rng.random() < 0.15, isolated=rng.choice([0, 0, 1, 2]))
            res = rng.choice([0.5, 1.0, 2.0, 1.5, 3.0, 0.05, 10.0, round(rng.uniform(0.01, 4.0), 3)])
            d = rng.choice([0.5, 0.85, 0.99, 0.01, 0.3, 0.999, round(rng.uniform(0.02, 0.98), 3)])
            tol = rng.choice([None, None, 1e-3, 1e-9, 1e-12])
            plan = {"und": True, "res": (res,), "pr": ((d, 60000, tol), (d, None, None))}
            eval_presentation(nodes, nbrs, plan, acc)
    elif scope == "S6":
        _, fam, n, rep, seed = task
        nodes, nbrs, inst, label, rng = ladder_instance(fam, n, rep, seed)
        plan = {"und": True, "kbig": True, "res": (rng.choice([0.5, 1.0, 1.0, 2.0]),), "pr": ((rng.choice([0.5, 0.85]), 2000, None), (None, None, None))}
        eval_presentation(nodes, nbrs, plan, acc, inst, rng, label)
        acc["big"] += 1
    elif scope == "S7":
        _, idx, count, seed = task
        history_task(idx, count, seed, acc)
    elif scope == "S8":
        _, idx, count, seed = task
        numeric_task(idx, count, seed, acc)
    elif scope == "S9":
        from checks import C15_round3
        C15_round3.task(sys.modules[__name__], task, acc)
    else:
        raise ValueError(scope)


def chunks(total, size):
    return [(lo, min(total, lo + size)) for lo in range(0, total, size)]


# ------------------------------------------------------------------ driver
def oracle_selfcheck(ctx):
    """the oracles agree with hand-known facts (a wrong oracle is a checker defect, not a violation)."""
    from oracles import c15_big as B
    from oracles import c15_graph as O
    path = O.closure([0, 1, 2, 3], [[1], [2], [3], []])
    assert O.cut_vertices(path) == {1, 2} and len(O.bridge_edges(path)) == 3
    k4p = O.closure(list(range(5)), [[1, 2, 3], [2, 3], [3], [4], []])
    assert O.core_numbers(k4p) == {0: 3, 1: 3, 2: 3, 3: 3, 4: 1}
    assert O.cut_vertices(k4p) == {3} and O.bridge_edges(k4p) == {frozenset((3, 4))}
    tri2 = O.closure(list(range(6)), [[1, 2], [2], [], [4, 5], [5], []])
    assert O.modularity(tri2, [{0, 1, 2}, {3, 4, 5}], 1) == Fraction(1, 2)
    assert O.modularity(tri2, [set(range(6))], 2) == Fraction(-1)
    for nbrs in ([[1], [2], [0, 0], []], [[0], [0, 2], [], [3, 1]]):
        for multi in (True, False):
            nodes = [0, 1, 2, 3]
            p = O.pagerank_exact(nodes, nbrs, Fraction(17, 20), multi)
            assert sum(p.values()) == 1 and all(x > 0 for x in p.values())
            assert O.pagerank_step(nodes, O.arcs(nodes, nbrs, multi), p, Fraction(17, 20)) == p
            assert B.pagerank_residual_bound_sparse(nodes, nbrs, Fraction(17, 20), multi) == O.pagerank_residual_bound(nodes, nbrs, Fraction(17, 20), multi)
    # linear-time oracles and constructions (the systematic comparison happens on every presentation, see xcheck)
    assert B.lowpoint(path) == ({1, 2}, O.bridge_edges(path), 1) and B.chains(path) == ({1, 2}, O.bridge_edges(path))
    assert B.lowpoint(k4p)[:2] == ({3}, {frozenset((3, 4))}) == B.chains(k4p) and B.core_numbers_peel(k4p) == O.core_numbers(k4p)
    rng = random.Random(15)
    for fam in B.FAMILIES_SHALLOW + B.FAMILIES_DEEP:
        inst = B.family(rng, fam, rng.randint(9, 14))
        nodes = list(range(inst["n"]))
        adj = O.closure(nodes, [[b for a, b in inst["edges"] if a == v] for v in nodes])
        assert O.cut_vertices(adj) == inst["cut"] and O.bridge_edges(adj) == inst["bridges"] and O.n_components(adj) == inst["comps"], fam
        assert inst["core"] is None or inst["core"] == [O.core_numbers(adj)[v] for v in nodes], fam


def run(ctx: Ctx):
    from vf.prove import prove
    prove(ctx, ["specs.misc"], "C15")  # deductive part (specs/misc.py)
    from vf.pool import pmap
    use_repo()
    try:
        oracle_selfcheck(ctx)
    except AssertionError:
        import traceback
        ctx.defects.append("oracle self-check failed: " + traceback.format_exc()[-600:])
        return
    q = ctx.quick
    seed = ctx.seed
    tasks = []
    n1 = 6 if q else 7
    for n in range(0, n1 + 1):
        tot = 1 << (n * (n - 1) // 2)
        tasks += [("S1", n, lo, hi) for lo, hi in chunks(tot, 512 if n < 7 else 2048)]
    ctx.scope("S1 all labelled simple graphs, symmetric sorted lists", n=f"0..{n1}", graphs=sum(1 << (n * (n - 1) // 2) for n in range(n1 + 1)),
              functions="articulation_points, bridges, kcore_decomposition, kcore(k=0..max+1; -1 too for n<=4), louvain(resolution 0.5,1,2); "
                        "n=7: kcore(k=max,max+1), louvain at one of the three resolutions (rotating)", exhaustive=True)
    for n in range(2, 5):
        tot = 1 << (n * (n - 1) // 2)
        tasks += [("S2x", n, lo, hi) for lo, hi in chunks(tot, 4)]
    ctx.scope("S2x all simple graphs x every order of every neighbour list", n="2..4", exhaustive=True)
    k5, k6 = (4, 1) if q else (40, 4)
    tasks += [("S2r", 5, lo, hi, k5, seed, (1.0, 2.0)) for lo, hi in chunks(1 << 10, 32)]
    tasks += [("S2r", 6, lo, hi, k6, seed, () if q else (1.0, 2.0)) for lo, hi in chunks(1 << 15, 512)]
    ctx.scope("S2r simple graphs under reversed lists, reversed node order and random relabelling/shuffles", n="5,6",
              random_variants_per_graph={"5": k5, "6": k6}, louvain="n=5 always; n=6 thorough tier only")
    for n in range(1, 5):
        tot = 1 << (n * n)
        tasks += [("S3", n, lo, hi, q and n == 4) for lo, hi in chunks(tot, 256)]
    ctx.scope("S3 every neighbour function (N(v) any subset of the nodes: asymmetric lists, self loops)", n="1..4",
              presentations=sum(1 << (n * n) for n in range(1, 5)),
              functions="all five undirected functions on the symmetric closure; pagerank damping 0.5/0.85/0.99 (max_iter 20000) and defaults; "
                        "pagerank_edges(backend='python')" + ("; quick tier at n=4: one of the three dampings per presentation (rotating), "
                        "louvain resolution 1,2, pagerank_edges on every 4th" if q else ""), exhaustive=True)
    k4 = 3 if q else 40
    tasks += [("S4", 5, lo, hi, k4, seed) for lo, hi in chunks(1 << 10, 32)]
    ctx.scope("S4 simple graphs on 5 nodes, random asymmetric/duplicated/self-looped/shuffled presentations", per_graph=k4)
    r5 = 1600 if q else 24000
    tasks += [("S5", i, 50, seed) for i in range(r5 // 50)]
    ctx.scope("S5 structured random graphs (tree, tree+chords, cactus, clique chain, G(n,p), union, bipartite, ladder)", n="6..14 incl. isolated",
              runs=r5, damping="0.01..0.999", resolution="0.01..10", tol="default,1e-3,1e-9,1e-12",
              features="asymmetric lists, duplicates, self loops, foreign neighbours, string labels, shuffled node/neighbour order")
    from oracles import c15_big as B
    fams = B.FAMILIES_SHALLOW + B.FAMILIES_DEEP
    gnps = tuple(f"gnp{c}" for c in GNP_C)
    n6 = 0
    if q:
        for n in LADDER_Q:
            for fam in fams + (gnps if n in (33, 130, 520, 1000, 2000) else ()):
                for rep in ((0, 1) if n in LADDER_Q2 else (0,)):
                    tasks.append(("S6", fam, n, rep, seed))
                    n6 += 1
    else:
        for n in LADDER_T:
            for fam in fams + gnps:
                for rep in range(4 if n <= 3000 else 2):
                    tasks.append(("S6", fam, n, rep, seed))
                    n6 += 1
    ctx.scope("S6 size ladder: instances far beyond the brute-force scope, answers known by construction / from certifying linear-time oracles",
              sizes=list(LADDER_Q if q else LADDER_T), families=list(fams), sparse_random=[f"G(n, {c}/n)" for c in GNP_C], instances=n6,
              presentations="rep 0: labels 0..n-1 in order, sorted symmetric lists; other reps: shuffled labels/orders, string labels, one-sided lists, "
                            "duplicates + self loops + foreign neighbours",
              functions="articulation_points, bridges, kcore_decomposition, kcore(k in {1, 2, max, max+1}), louvain(one resolution), "
                        "pagerank(damping 0.5 or 0.85 with max_iter 2000; defaults)",
              oracle="cut vertices / bridges: low-point DFS == chain decomposition == by-construction answer (block-tree theorem), spot-checked by "
                     "removal on <= 20 sampled vertices/edges; core numbers: work-list peeling (== by-construction for disjoint unions); "
                     "modularity and PageRank residual exact (Fractions)",
              shallow_families=list(B.FAMILIES_SHALLOW), deep_families=list(B.FAMILIES_DEEP))
    h7, c7 = (40, 12) if q else (96, 50)
    tasks += [("S7", i, c7, seed) for i in range(h7)]
    ctx.scope("S7 history mode: ONE node list object and ONE neighbour callable (lambda over a dict / dict.__getitem__ / dict.get / callable object) "
              "reused over 8..17 ops; in-place edits between calls (add/delete edge, add/delete/rename node, rewrite a neighbour list, reorder the "
              "node list, replace the whole graph inside the same dict); the same call repeated", sequences=h7 * c7,
              judged="every call against the brute-force oracle for the graph as it is at that call; every louvain / pagerank call (results not "
                     "pinned by the oracle) and the last call of every sequence also made in a fresh process (forked from a pristine interpreter that "
                     "imported the tree under check and never called it) and compared order-independently; a failing call is re-run alone in a fresh "
                     "process to tell history-dependent failures ([after-earlier-calls], sequence minimised op by op) from plain ones",
              functions=list(HIST_FNS), n="3..14")
    h8, c8 = (32, 25) if q else (128, 100)
    tasks += [("S8", i, c8, seed) for i in range(h8)]
    ctx.scope("S8 fine-grained numerics inside the quantifier", runs=h8 * c8,
              pagerank=dict(damping=[repr(x) for x in NUM_DAMP], tol=[repr(x) for x in NUM_TOL], max_iter=[repr(x) for x in NUM_ITER],
                            graphs="random digraphs on 2..7 nodes with dangling nodes, self loops, parallel arcs; 4 configurations each"),
              louvain=dict(resolution="2^-40, 1 +- 2^-40, 2 +- 2^-40, 2, 1e-9, 1024, 2^20 and exact ties 2m*e/(d*s) of the move gain with "
                                      "relative offsets -2^-40, +2^-40, +2^-36; 6 per graph", graphs="structured 6..12 nodes / G(n, 1/2) on 2..6 nodes"))
    from checks import C15_round3
    t9, d9 = C15_round3.tasks(sys.modules[__name__], q, seed)
    tasks += t9
    ctx.scope("S9 presentation diversity: the structural generators of S1/S3/S5/S6 handed over under unusual but legal node labels, equal copies of "
              "labels, container kinds for `nodes` and for the neighbour lists, kinds of neighbour callables; every call made twice", **d9)
    # heavy tasks first
    order = {"S3": 0, "S1": 1, "S7": 2, "S6": 3, "S5": 4, "S9": 4, "S8": 5, "S2r": 6, "S4": 7, "S2x": 8}
    def weight(t):
        w = t[2] if t[0] == "S6" else t[1]
        return -w if isinstance(w, int) else 0

    tasks.sort(key=lambda t: (order[t[0]], weight(t)))
    import os
    c0 = os.times()
    results = pmap(work, tasks, chunksize=1)
    c1 = os.times()
    ctx.notes["cpu_s_workers"] = round((c1.children_user - c0.children_user) + (c1.user - c0.user), 1)
    keys = set()
    fail_counts = {}
    ratio = 0.0
    samples = []
    cases = n_asym = 0
    for acc in results:
        for d in acc["oracle_defects"][:3]:
            if len(ctx.defects) < 10:
                ctx.defects.append("oracle cross-check: " + d)
        n_asym += acc["asym"]
        ctx.evaluations += acc["evals"]
        cases += acc["cases"]
        keys.update(acc["keys"])
        ratio = max(ratio, acc["ratio"])
        for o, c in acc["fail_counts"].items():
            fail_counts[o] = fail_counts.get(o, 0) + c
        if len(samples) < 8:
            samples += acc["samples"][:1]
    kept = {}
    allf = [f for acc in results for f in acc["fails"]]
    allf.sort(key=lambda f: ((len(f[1]["nodes"]), sum(len(l) for l in f[1]["nbrs"])) if "nodes" in f[1]
                             else (len(f[1]["init"]["nodes"]), len(f[1]["ops"]))))  # smallest first
    for obl, case, detail in allf:
        kept[obl] = kept.get(obl, 0) + 1
        if kept[obl] <= 3:  # the 3 smallest per obligation (all are counted in coverage.failing_evaluations_by_obligation)
            ctx.violation(obl, case, detail)
    ctx.count(0, keys, samples)
    cpu = {}
    for acc in results:
        cpu[acc["cpu"][0]] = round(cpu.get(acc["cpu"][0], 0.0) + acc["cpu"][1], 1)
    ctx.notes["cpu_s_by_scope"] = cpu
    ctx.notes["presentations_evaluated"] = cases
    ctx.notes["presentations_on_which_the_linear_oracles_were_cross_checked"] = sum(acc["xchecked"] for acc in results)
    ctx.notes["size_ladder_instances"] = sum(acc["big"] for acc in results)
    ctx.notes["calls_compared_with_a_fresh_process"] = sum(acc["fresh"] for acc in results)
    ctx.notes["presentations_with_asymmetric_lists"] = n_asym
    ctx.notes["failing_evaluations_by_obligation"] = fail_counts
    ctx.notes["pagerank_plain_residual_over_tol_max_seen"] = round(ratio, 4)
    ctx.rule = ("case = presentation (node list order, neighbour lists incl. order/duplicates/self loops) evaluated with every function/config of "
                "its scope and compared with the brute-force definition on the intended graph (S6, more than 40 nodes: with the cross-validated "
                "linear-time oracles); S7: case = one call of a history sequence, judged on the graph as it is at that call; evaluations = function "
                "calls compared; non-trivial = the intended graph has at least one edge (arc); distinct = different (node list, neighbour lists, "
                "configuration plan) resp. (S7) different (position in the sequence, function, parameters, graph at the call)")
    ctx.assumptions += [
        "G1 intended undirected graph of a neighbour function = simple symmetric closure: {u,v} is an edge iff u != v and (v in N(u) or u in N(v)) "
        "(module docstrings: 'Treats graph as undirected', louvain: 'edges in both directions are counted once'; kcore and louvain build exactly "
        "this). Violations that occur only on asymmetric lists carry the obligation suffix [asymmetric-lists]",
        "G2 duplicate neighbours denote the same edge; self loops and neighbours outside the node list add nothing to an undirected graph "
        "(degree, connectivity, modularity); the statement does not pin a multigraph reading and none is demanded",
        "G3 PageRank graph: arcs (u,v) for v in N(u); self loops are arcs; duplicate neighbours may be read as parallel arcs or as one arc "
        "(either reading satisfying the equation is accepted)",
        "E1 'satisfy the equation to within the tolerance' = the result p is G(q) for some q with ||p-q||_inf <= tol (L-inf stopping rule), checked "
        "through its exact consequence ||p-G(p)||_inf <= tol*max(1, d*max_v max{sum_u M[v][u]x_u : |x|<=1, sum x = 0}) + 1e-12; the plain bound "
        "||p-G(p)||_inf <= tol is NOT demanded (the statement fixes neither norm nor iterate; max ratio seen is in "
        "coverage.pagerank_plain_residual_over_tol_max_seen)",
        "E2 the equation clause is demanded of results whose status is not MAX_ITER (max_iter is a documented cap and is reported); "
        "non-negativity, domain and sum 1 (+-1e-9) are demanded always",
        "E3 modularity equality within 1e-9 * max(1, resolution) (float summation order; the value scales with the resolution); graphs without "
        "edges: modularity undefined, only the partition is checked",
        "H1 (history mode) the functions are functions of their arguments: a call returns the same value (compared order-independently: sets, "
        "dict items, partition blocks, bit-identical floats) as the same call in a fresh process; differences are reported under "
        "<fn>/history:same-as-fresh-process (the statement describes each result as determined by the graph; C15's frame obligation forbids "
        "persistent state). Wrong answers after earlier calls are reported under the ordinary clause with the suffix [after-earlier-calls]",
        "R1 'return' for every graph includes graphs whose DFS is deep: a RecursionError is reported under <fn>/returns[recursion-depth] "
        "(separate obligation, so that it can be triaged on its own)",
        "nodes are distinct; neighbour functions are pure for the duration of a call (history mode edits the data they read only between calls)",
        "L1 (S9) node labels are arbitrary hashable values and a node is what ==/hash say it is (1, 1.0 and True name the same node: the functions "
        "test `w in node_set`); bridges and louvain are only given totally ordered label sets (bridges documents '(u, v) with u < v', louvain "
        "uses `<` on labels by the same convention; unorderable or partially ordered labels - None next to ints, str next to int, frozensets - "
        "are outside their domain and not judged, see triage/C15_round3.md); nodes labelled None ARE judged for articulation_points, "
        "kcore_decomposition, kcore and pagerank (repaired in /repo dd0ffbc)",
        "L2 (S9) `nodes` may be any iterable (one-shot ones included) and neighbours(v) may return any iterable; containers owned by the caller "
        "(node list, neighbour lists / tuples / deques / dicts) must be left as they were: <fn>/frame:caller-owned-inputs-unchanged; every call is "
        "made twice on the same presentation and must return the same value: <fn>/ensures:same-call-same-answer",
    ]
    ctx.trusted += ["oracles/c15_graph.py (brute-force definitions over Fractions; self-checked on hand-computed graphs at start)",
                    "oracles/c15_big.py (low-point DFS, chain decomposition, work-list peeling, block-tree constructions: compared with the brute force "
                    "on every presentation of S1-S5 and with each other / the construction / sampled removals on every S6 instance; any disagreement "
                    "is a checker defect)"]


def replay(rec) -> int:
    use_repo()
    signal.signal(signal.SIGVTALRM, _alarm)
    case = rec["case"]
    if case.get("mode") == "pres":
        from checks import C15_round3
        return C15_round3.replay(sys.modules[__name__], case)
    if case.get("mode") == "history":
        print("replay: history sequence, neighbour callable", case["nb_kind"], "init", case["init"])
        res = run_history(case)
        calls = iter(res)
        for i, op in enumerate(case["ops"]):
            if op[0] == "call":
                r = next(calls)
                print(f"  op {i}: call {op[1]} {op[2]} on nodes {r[3]} nbrs {r[4]} ->", r[5] or "ok")
            else:
                print(f"  op {i}: {op}")
        bad = res[-1][5] if res else []
        if not bad and "same-as-fresh-process" in rec.get("obligation", "") and res:
            fresh = Fresh()
            try:
                ans = fresh.ask(("call", res[-1][1], res[-1][3], res[-1][4], res[-1][2]))
            finally:
                fresh.close()
            if ans[0] == "ok" and ans[1] != res[-1][6]:
                bad = [("history:same-as-fresh-process", f"in sequence: {res[-1][6]}; fresh process: {ans[1]}")]
        print("  -> last call:", bad or "no violation")
        return 1 if bad else 0
    bad = guarded(lambda: eval_case(case["fn"], case["nodes"], case["nbrs"], case["params"]), 120)
    if len(case["nodes"]) <= BIG:
        print("replay:", case["fn"], "nodes", case["nodes"], "nbrs", case["nbrs"], case["params"])
    else:
        print("replay:", case["fn"], case["params"], f"on {len(case['nodes'])} nodes", case.get("family", ""), "(oracle: oracles/c15_big.py, linear time)")
    print("  ->", bad or "no violation")
    return 1 if bad else 0

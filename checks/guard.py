"""Per-call CPU-time budget for the bounded back ends.

A change that makes a function of the tree under check run for ever must end in a verdict, not in a hung check.  `guarded(key,
f, ...)` runs one call under ITIMER_VIRTUAL (CPU time of this process: a busy machine does not shorten it).  Budgets are
orders of magnitude above what the calls need on the unchanged tree.  A function that exhausted its budget twice in this
worker is not called again: the guard raises the same exception at once, so the remaining cases cost nothing (each is still
reported under the obligation its caller uses for 'the call did not return').  An enclosing ITIMER_VIRTUAL of the caller is
re-armed with its remaining time on the way out."""
from __future__ import annotations

import os
import signal
import time
from collections import Counter

BUDGET = float(os.environ.get("VERIF_CALL_BUDGET", "120"))  # CPU-seconds per call
_OVER: Counter = Counter()


class CpuBudget(Exception):
    pass


def guarded(key, f, *a, **kw):
    return guarded_b(key, BUDGET, f, *a, **kw)


def guarded_b(key, budget, f, *a, **kw):
    if _OVER[key] >= 2:
        raise CpuBudget(f"{key}: no answer within {budget:g} CPU-s twice before in this worker, not called again")

    def fire(*_):
        raise CpuBudget(f"{key}: no answer within {budget:g} CPU-s")

    old_h = signal.signal(signal.SIGVTALRM, fire)
    t0 = time.process_time()
    prev = signal.setitimer(signal.ITIMER_VIRTUAL, budget)
    try:
        try:
            return f(*a, **kw)
        finally:
            signal.setitimer(signal.ITIMER_VIRTUAL, 0)
    except CpuBudget:
        _OVER[key] += 1
        raise
    finally:
        signal.signal(signal.SIGVTALRM, old_h)
        if prev[0] > 0:
            signal.setitimer(signal.ITIMER_VIRTUAL, max(0.05, prev[0] - (time.process_time() - t0)), prev[1])

"""C19, round-2 input families (pure data: no solver is imported here; checks/C19.py runs and judges the cases).

Every family is a general capability, written per solver of the property's scope (anneal, tabu_search, lns, alns,
evolve, differential_evolution, particle_swarm, nelder_mead, bayesian_opt, powell, bfgs, lbfgs):

  budget ladder     one size-like parameter of the solver (iteration limit, population / swarm / neighbourhood size,
                    number of states, tabu tenure, segment size, number of operators, history length m, n_initial,
                    evaluation budget through on_progress) planted at 33, 65, 66, 100, 129, 260, 520, 1000 (thorough:
                    + 1025, 2049, 5000); bayesian_opt (cubic per step) at 66, 80, 130 (thorough: .. 300)
  dimension ladder  continuous solvers on 1..30 variables (separable step / bowl / kink objectives of any dimension)
  option ladder     every documented keyword left at its default, and at extreme values, one at a time and in random
                    combinations; seedless runs (books only)
  numerics          dyadic gaps 2^-40 on top of 1.0, exact ties, quantised bowls, kinks with one-sided subgradients,
                    forward-difference gradients, tolerances just above / below the gaps
  planted best      copies of the ladder cases in which the j-th point the solver evaluates (found by a dry run) is made
                    the best candidate by 64 / 1 / 2^-37: the sharpest form of 'at least as good as every candidate
                    evaluated' for budgets that outlive a window / archive / restart inside the solver
  history           sequences of calls in ONE process on the same argument objects (bounds / x0 / population / start /
                    operator lists, the objective and callback function objects), edited in place between the calls:
                    A, A, edit, edit', A again; every answer judged by the books of that call, equal calls must agree,
                    each answer must equal the answer on fresh objects, the last one the answer of a fresh process

The verdict of every case is decided by the recorded trace of that very run (oracles/search_books.py), which costs
O(number of evaluations): there is no brute force, so the sizes are limited by the solver's own running time only.
"""
from __future__ import annotations

LADDER_Q = (33, 65, 66, 100, 129, 260, 520, 1000)
LADDER_T = LADDER_Q + (1025, 2049, 5000)
BAYES_Q = (66, 80, 130)
BAYES_T = (66, 67, 80, 100, 130, 200, 300)
DISCRETE = ("anneal", "tabu_search", "lns", "alns", "evolve")
CONTINUOUS = ("nelder_mead", "differential_evolution", "particle_swarm", "bayesian_opt", "powell", "bfgs", "lbfgs")
ALL = DISCRETE + CONTINUOUS
E40 = 2.0 ** -40


# =============================================================================== objectives
def tab(rng, K, mode=None, fine=False):
    mode = mode or rng.choice(("binary", "small", "small", "perm", "pit", "early"))
    t = {"gen": rng.randrange(10 ** 6), "mode": mode}
    if mode == "early":
        t["at"] = rng.randrange(min(K, 8))
    if fine:
        t.update(eps=E40, base=1.0)
    return {"kind": "table", "K": K, "table": t}


def sep(rng, n, flavour=None):
    """Objective on R^n whose description is O(n)."""
    fl = flavour or rng.choice(("steps", "dyadic", "bowl", "rugged", "kink", "quant", "slope", "ripple"))
    o = {"kind": "sep", "n": n}
    if fl in ("steps", "dyadic", "rugged", "ripple"):
        m = rng.choice((2, 3, 4, 5)) if fl != "ripple" else rng.choice((8, 16))
        o.update(lo=rng.choice((-1.0, -0.4, 0.0)), w=rng.choice((0.25, 0.5, 1.0)) if fl != "ripple" else 0.125, m=m,
                 table=[rng.choice((-2, -1, 0, 0, 1, 2, 3)) for _ in range(m)], rot=rng.choice((0, 1)))
    if fl == "dyadic":
        o.update(eps=E40, base=1.0)
    if fl == "ripple":
        o.update(eps=2.0 ** -6, q=1, c=[rng.choice((-0.5, 0.0, 0.3, 1.0)) for _ in range(n)])
    if fl in ("bowl", "quant"):
        o.update(q=rng.choice((1, 0.5, 2)), c=[rng.choice((-1.0, 0.0, 0.3, 1.5)) for _ in range(n)])
    if fl == "rugged":
        o.update(q=rng.choice((0.01, 0.3)), c=[rng.choice((-1.0, 0.2, 1.0)) for _ in range(n)])
    if fl == "quant":
        o["quant"] = rng.choice((2, 3, 6))
    if fl == "kink":
        o["abs"] = [[rng.choice((1, 0.5, 2)), rng.choice((0.0, 1.0, -0.5, 0.25))] for _ in range(n)]
    if fl == "slope":
        o["slope"] = [rng.choice((0.5, -1, 0.125, 0)) for _ in range(n)]
        o.update(q=rng.choice((0, 0.25)), c=[0.0] * n)
    return o


def box(rng, n, strict=True):
    lo = rng.choice((-2, -1.0, 0, -0.5))
    hi = lo + rng.choice((1, 2.5, 4))
    if rng.random() < 0.5:
        return [[lo, hi] for _ in range(n)]
    return [[lo + rng.choice((0, 0.25)), hi + rng.choice((0, 0.5))] for _ in range(n)]


def x0_of(rng, n):
    return [rng.choice((0, 0.0, 1, -1.0, 0.5, 2.0, -0.3, 1.0)) for _ in range(n)]


def stop_of(rng, hi, p_none=0.5):
    r = rng.random()
    if r < p_none:
        return None
    if r < 0.85:
        return {"at": rng.randint(1, max(1, hi)), "interval": rng.choice((1, 1, 2, 3, 7))}
    return {"at": rng.randint(1, 3 * max(1, hi)), "by": "evals", "interval": rng.choice((1, 2))}


USER_ACC = ("reject_all", "alternate", "worse_only", "threshold", "not_worse", "coin", "late")


def accept_of(rng):
    if rng.random() < 0.5:
        return rng.choice(("improving", "accept_all", "simulated_annealing"))
    return {"user": rng.choice(USER_ACC), "thr": rng.choice((1, 2, 3, 40))}


def script_of(rng, n=None):
    return [rng.choice((-2, -1, 0, 1, 1, 2, 3)) for _ in range(n or rng.randint(1, 9))]


# =============================================================================== one case per solver, sizes explicit
def c_anneal(rng, K=12, mi=50, fine=False, **cfg):
    c = {"temperature": rng.choice((1000.0, 5.0, 1.0, 0.3)), "cooling": rng.choice((0.9995, 0.99, "linear", "log", "const")),
         "max_iter": mi, "seed": rng.randint(0, 50)}
    if fine:
        c["temperature"] = rng.choice((E40, 4 * E40, 1.0))
        c["min_temp"] = 1e-300
    c.update(cfg)
    return {"solver": "anneal", "obj": tab(rng, K, fine=fine), "start": rng.randrange(K), "minimize": rng.random() < 0.5,
            "rep": rng.choice(("int", "tuple", "list", "cached")), "script": script_of(rng), "stop": stop_of(rng, mi, 0.7),
            "cfg": c}


def c_tabu(rng, K=12, mi=50, nb=None, fine=False, **cfg):
    nb = nb or rng.choice((1, 2, 3, 4))
    span = max(2, min(K, 3 * nb))
    steps = [rng.randint(-span, span) for _ in range(nb)]
    moves = [steps] if rng.random() < 0.6 or nb > 8 else [[rng.choice((-2, -1, 0, 1, 2)) for _ in range(nb)] for _ in range(min(K, 5))]
    c = {"cooldown": rng.choice((1, 2, 3, 10)), "max_iter": mi, "max_no_improve": rng.choice((mi + 1, mi + 1, 3, 100)),
         "seed": rng.randint(0, 50)}
    c.update(cfg)
    return {"solver": "tabu_search", "obj": tab(rng, K, fine=fine), "start": rng.randrange(K), "minimize": rng.random() < 0.5,
            "rep": rng.choice(("int", "tuple", "list", "cached")), "moves": moves, "label": rng.choice(("step", "target", "pair")),
            "stop": stop_of(rng, mi, 0.7), "cfg": c}


def c_lns(rng, K=12, mi=50, fine=False, **cfg):
    c = {"max_iter": mi, "max_no_improve": rng.choice((mi + 1, mi + 1, 5, 100)), "seed": rng.randint(0, 50),
         "start_temp": rng.choice((100.0, 1.0, 0.2)) if not fine else rng.choice((E40, 1.0)),
         "cooling_rate": rng.choice((0.9995, 0.5, 1.0))}
    c.update(cfg)
    return {"solver": "lns", "obj": tab(rng, K, fine=fine), "start": rng.randrange(K), "minimize": rng.random() < 0.5,
            "rep": rng.choice(("int", "tuple", "list", "cached")), "script": script_of(rng), "accept": accept_of(rng),
            "destroy": rng.choice(("copy", "same")), "repair": rng.choice(("script", "rng", "inplace")),
            "stop": stop_of(rng, mi, 0.7), "cfg": c}


def c_alns(rng, K=12, mi=50, nops=None, fine=False, **cfg):
    nd, nr = (nops, rng.randint(1, 3)) if nops else (rng.randint(1, 3), rng.randint(1, 3))
    if nops and rng.random() < 0.5:
        nd, nr = nr, nd
    c = {"max_iter": mi, "max_no_improve": rng.choice((mi + 1, mi + 1, 3, 500)), "seed": rng.randint(0, 50),
         "start_temp": rng.choice((100.0, 1.0, 0.2)) if not fine else rng.choice((E40, 1.0)),
         "cooling_rate": rng.choice((0.9995, 0.5)), "segment_size": rng.choice((1, 2, 3, 100)),
         "reaction_factor": rng.choice((0.1, 0.9))}
    dops = [rng.choice((-1, 0, 1, 2)) if nd < 9 else rng.randint(-nd, nd) for _ in range(nd)]
    rops = [rng.choice((-1, 1, 2, "rng")) if nr < 9 else rng.randint(-nr, nr) for _ in range(nr)]
    if rng.random() < 0.3:
        c["destroy_weights"] = [rng.choice((0.1, 1.0, 5.0)) for _ in dops]
        c["repair_weights"] = [rng.choice((0.1, 1.0, 5.0)) for _ in rops]
    c.update(cfg)
    return {"solver": "alns", "obj": tab(rng, K, fine=fine), "start": rng.randrange(K), "minimize": rng.random() < 0.5,
            "rep": rng.choice(("int", "tuple", "list", "cached")), "destroy_ops": dops, "repair_ops": rops,
            "accept": accept_of(rng), "stop": stop_of(rng, mi, 0.7), "cfg": c}


def c_evolve(rng, K=12, mi=5, pop=None, fine=False, **cfg):
    pop = pop or rng.randint(1, 6)
    c = {"elite_size": rng.choice((0, 0, 1, 2, 7)), "mutation_rate": rng.choice((0.0, 0.1, 0.5, 1.0)),
         "adaptive_mutation": rng.random() < 0.3, "max_iter": mi, "seed": rng.randint(0, 50),
         "tournament_k": rng.choice((1, 2, 3))}
    c.update(cfg)
    return {"solver": "evolve", "obj": tab(rng, K, fine=fine), "population": [rng.randrange(K) for _ in range(pop)],
            "crossover": rng.choice(("avg", "first", "second", "sum")), "mutate": rng.choice(("inc", "same", "script", "inplace")),
            "script": script_of(rng), "minimize": rng.random() < 0.5, "rep": rng.choice(("int", "tuple", "list", "cached")),
            "stop": stop_of(rng, mi, 0.7), "cfg": c}


def c_de(rng, n=2, mi=5, pop=None, init=None, obj=None, **cfg):
    strat = rng.choice(("rand/1", "best/1", "rand/2", "best/2"))
    pop = pop or rng.choice((1, 4, 5, 7))
    if strat.endswith("2"):
        pop = max(pop, 6)
    b = box(rng, n)
    c = {"population_size": pop, "mutation": rng.choice((0.8, 0.5, 1.5)), "crossover": rng.choice((0.7, 0.0, 1.0)),
         "strategy": strat, "max_iter": mi, "tol": rng.choice((0.0, 0.0, 1e-8)), "seed": rng.randint(0, 50)}
    c.update(cfg)
    if init is None and rng.random() < 0.4:
        init = rng.randint(1, min(pop, 8))
    ini = None if not init else {"gen": rng.randrange(10 ** 6), "count": min(init, max(c["population_size"], 4)),
                                 "outside": rng.choice((0, 0, 4))}
    return {"solver": "differential_evolution", "obj": obj or sep(rng, n), "bounds": b, "minimize": rng.random() < 0.5,
            "initial": ini, "tuples": rng.random() < 0.3, "stop": stop_of(rng, mi, 0.7), "cfg": c}


def c_pso(rng, n=2, mi=5, pop=None, init=None, obj=None, **cfg):
    pop = pop or rng.choice((1, 2, 4, 7))
    c = {"n_particles": pop, "max_iter": mi, "seed": rng.randint(0, 50), "inertia": rng.choice((0.7, 0.0, 1.2)),
         "cognitive": rng.choice((1.5, 0.0)), "social": rng.choice((1.5, 0.0, 3.0))}
    if rng.random() < 0.3:
        c["inertia_decay"] = 0.4
    if rng.random() < 0.3:
        c["v_max"] = rng.choice((0.01, 1.0, 10.0))
    c.update(cfg)
    if init is None and rng.random() < 0.4:
        init = rng.randint(1, min(pop, 8))
    ini = None if not init else {"gen": rng.randrange(10 ** 6), "count": min(init, c["n_particles"]), "outside": rng.choice((0, 0, 4))}
    return {"solver": "particle_swarm", "obj": obj or sep(rng, n), "bounds": box(rng, n), "minimize": rng.random() < 0.5,
            "initial": ini, "tuples": rng.random() < 0.3, "stop": stop_of(rng, mi, 0.7), "cfg": c}


def c_nm(rng, n=2, mi=20, obj=None, **cfg):
    c = {"max_iter": mi, "adaptive": rng.random() < 0.4, "tol": rng.choice((0.0, 0.0, 1e-6)),
         "initial_step": rng.choice((0.05, 0.5, 1.0))}
    c.update(cfg)
    return {"solver": "nelder_mead", "obj": obj or sep(rng, n), "x0": x0_of(rng, n), "minimize": rng.random() < 0.5,
            "tuples": rng.random() < 0.3, "stop": stop_of(rng, mi, 0.7), "cfg": c}


def c_bayes(rng, n=1, mi=8, ni=None, obj=None, **cfg):
    c = {"max_iter": mi, "n_initial": ni or rng.choice((1, 2, 3, 5)), "acquisition": rng.choice(("ei", "ucb")),
         "kappa": rng.choice((2.0, 0.0)), "acq_restarts": rng.choice((1, 1, 2)), "seed": rng.randint(0, 50)}
    c.update(cfg)
    return {"solver": "bayesian_opt", "obj": obj or sep(rng, n), "bounds": box(rng, n), "minimize": rng.random() < 0.5,
            "stop": stop_of(rng, mi, 0.8), "cfg": c}


def c_powell(rng, n=2, mi=2, obj=None, **cfg):
    b = rng.choice((None, box(rng, n)))
    c = {"max_iter": mi, "tol": rng.choice((1e-6, 0.0, 0.1))}
    c.update(cfg)
    return {"solver": "powell", "obj": obj or sep(rng, n), "x0": x0_of(rng, n), "bounds": b, "minimize": rng.random() < 0.5,
            "stop": stop_of(rng, mi, 0.7), "cfg": c}


def c_bfgs(rng, s="bfgs", n=2, mi=6, obj=None, grad=None, **cfg):
    obj = obj or sep(rng, n, rng.choice(("bowl", "kink", "kink", "rugged", "slope", "quant", "ripple")))
    if grad is None:
        grad = rng.choice(("right", "left", "zero", {"fd": 1e-3}, {"fd": 2.0 ** -10}, {"fd": 1e-6}))
    c = {"max_iter": mi, "tol": rng.choice((1e-6, 0.0, 0.0, 0.3))}
    if s == "lbfgs":
        c["m"] = rng.choice((1, 2, 10))
    c.update(cfg)
    return {"solver": s, "obj": obj, "x0": x0_of(rng, n), "grad": grad, "minimize": rng.random() < 0.5,
            "stop": stop_of(rng, mi, 0.7), "cfg": c}


def c_lbfgs(rng, **kw):
    return c_bfgs(rng, "lbfgs", **kw)


MAKE = {"anneal": c_anneal, "tabu_search": c_tabu, "lns": c_lns, "alns": c_alns, "evolve": c_evolve,
        "differential_evolution": c_de, "particle_swarm": c_pso, "nelder_mead": c_nm, "bayesian_opt": c_bayes,
        "powell": c_powell, "bfgs": c_bfgs, "lbfgs": c_lbfgs}


def _tag(case, family, what):
    case["family"] = f"{family}:{what}"
    return case


def planted(rng, case, hi=None):
    """Copy of the case in which the j-th point the solver evaluates is made the best candidate (see resolve_plant in
    checks/C19.py): by a wide margin, or by a hair (2^-40) where the objective's values are that fine."""
    c = dict(case)
    fine = case["obj"].get("eps") == E40 or (isinstance(case["obj"].get("table"), dict) and case["obj"]["table"].get("eps") == E40)
    j = rng.choice((0, 1, 2, 3, rng.randrange(hi or 64), rng.randrange(hi or 64)))
    c["plant"] = {"at": j, "depth": rng.choice((64.0, 64.0, 1.0) + ((E40 * 8,) if fine else ()))}
    c["family"] = case.get("family", "") + "+planted-best"
    return c


# =============================================================================== 1. budget ladder
def budget_ladder(rng, quick):
    out = {s: [] for s in ALL}
    reps = 1 if quick else 4
    small = lambda: rng.choice((5, 12, 40))  # noqa: E731
    for B in (LADDER_Q if quick else LADDER_T):
        for _ in range(reps):
            add = lambda s, what, case: out[s].append(_tag(case, "budget", f"{what}={B}"))  # noqa: E731
            # ---- discrete
            add("anneal", "max_iter", c_anneal(rng, small(), B))
            add("anneal", "K", c_anneal(rng, B, rng.choice((40, 150, 400))))
            add("anneal", "evals", dict(c_anneal(rng, small(), 3 * B), stop={"at": B, "by": "evals", "interval": 1}))
            add("tabu_search", "max_iter", c_tabu(rng, small(), B, max_no_improve=B + 1))
            add("tabu_search", "neighbourhood", c_tabu(rng, rng.choice((12, B, 2 * B)), rng.choice((3, 8)), nb=B))
            add("tabu_search", "cooldown", c_tabu(rng, rng.choice((40, B)), 2 * B + 3, cooldown=B,
                                                  max_no_improve=10 ** 6))
            add("tabu_search", "K", c_tabu(rng, B, rng.choice((40, 150))))
            add("tabu_search", "max_no_improve", c_tabu(rng, small(), 2 * B + 3, max_no_improve=B))
            add("lns", "max_iter", c_lns(rng, small(), B, max_no_improve=B + 1))
            add("lns", "K", c_lns(rng, B, rng.choice((40, 150, 400))))
            add("lns", "max_no_improve", c_lns(rng, small(), 2 * B + 3, max_no_improve=B))
            add("alns", "max_iter", c_alns(rng, small(), B, max_no_improve=B + 1))
            add("alns", "segment_size", c_alns(rng, small(), 2 * B + 5, segment_size=B, max_no_improve=10 ** 6))
            add("alns", "operators", c_alns(rng, rng.choice((40, B)), rng.choice((60, 200)), nops=B))
            add("alns", "K", c_alns(rng, B, rng.choice((40, 150, 400))))
            add("evolve", "population", c_evolve(rng, rng.choice((12, B)), rng.choice((2, 3)), pop=B))
            add("evolve", "max_iter", c_evolve(rng, small(), B, pop=rng.choice((3, 6))))
            add("evolve", "elite_size", c_evolve(rng, small(), 3, pop=B + rng.choice((0, 1, 5)), elite_size=B))
            add("evolve", "tournament_k", c_evolve(rng, 40, 3 if B < 300 else 1, pop=B + rng.choice((0, 5)), tournament_k=B))
            add("evolve", "K", c_evolve(rng, B, rng.choice((5, 20))))
            # ---- continuous
            n = rng.choice((1, 2, 3))
            add("differential_evolution", "population_size", c_de(rng, n, rng.choice((2, 3)), pop=B))
            add("differential_evolution", "initial_population", c_de(rng, n, 2, pop=B, init=B))
            add("differential_evolution", "max_iter", c_de(rng, n, B, pop=rng.choice((4, 6)), tol=0.0))
            add("particle_swarm", "n_particles", c_pso(rng, n, rng.choice((2, 3)), pop=B))
            add("particle_swarm", "initial_positions", c_pso(rng, n, 2, pop=B, init=B))
            add("particle_swarm", "max_iter", c_pso(rng, n, B, pop=rng.choice((1, 3))))
            add("nelder_mead", "max_iter", c_nm(rng, n, B, obj=sep(rng, n, rng.choice(("rugged", "steps", "kink", "ripple"))), tol=0.0))
            add("nelder_mead", "evals", dict(c_nm(rng, n, 3 * B, tol=0.0), stop={"at": B, "by": "evals", "interval": 1}))
            if B <= (260 if quick else 1000):
                pn = rng.choice((1, 2))
                add("powell", "max_iter", c_powell(rng, pn, B, obj=sep(rng, pn, rng.choice(("rugged", "kink", "ripple"))), tol=0.0))
            for s in ("bfgs", "lbfgs"):
                add(s, "max_iter", c_bfgs(rng, s, n, B, tol=0.0))
            add("lbfgs", "m", c_bfgs(rng, "lbfgs", n, min(B + 7, 300), obj=sep(rng, n, "ripple"), tol=0.0, m=B))
    for s in ALL:  # every ladder case once more with the best candidate planted at an early evaluation
        out[s] += [planted(rng, c) for c in out[s]]
    for B in (BAYES_Q if quick else BAYES_T):
        for k in range((5 if B <= 80 else 3) if quick else (6 if B < 200 else 3)):
            n = 1 if k % 2 == 0 else 2
            fl = ("bowl", "ripple", "rugged", "kink")[k % 4]
            cpu = 90 if B <= 130 else 3600
            case = _tag(dict(c_bayes(rng, n, B, obj=sep(rng, n, fl), acq_restarts=1), stop=None, cpu=cpu), "budget", f"max_iter={B}")
            if B >= 200:
                case["runs"] = 1  # one judged run (plus the dry run of a planted case): repetition / mirror at <= 130
            out["bayesian_opt"].append(case if k % 2 else planted(rng, case, 24))
        if B <= 130:
            case = _tag(dict(c_bayes(rng, 2, B + 4, ni=B, acq_restarts=1), stop=None), "budget", f"n_initial={B}")
            out["bayesian_opt"] += [case, planted(rng, case, B)]
    return out


# =============================================================================== 2. dimension ladder
def dimension_ladder(rng, quick):
    out = {s: [] for s in CONTINUOUS}
    dims = (1, 2, 3, 5, 8, 13, 21, 30) if quick else tuple(range(1, 31))
    for n in dims:
        for _ in range(1 if quick else 3):
            add = lambda s, case: out[s].append(_tag(case, "dimension", f"n={n}"))  # noqa: E731
            add("nelder_mead", c_nm(rng, n, rng.choice((30, 120))))
            add("nelder_mead", c_nm(rng, n, 4 * n + 10, obj=sep(rng, n, "rugged"), tol=0.0))
            add("differential_evolution", c_de(rng, n, rng.choice((3, 12)), pop=rng.choice((6, 15))))
            add("particle_swarm", c_pso(rng, n, rng.choice((3, 12)), pop=rng.choice((3, 10))))
            add("powell", c_powell(rng, n, rng.choice((1, 2))))
            add("bfgs", c_bfgs(rng, "bfgs", n, rng.choice((3, 12))))
            add("lbfgs", c_bfgs(rng, "lbfgs", n, rng.choice((3, 12))))
            if n <= (8 if quick else 30):
                add("bayesian_opt", c_bayes(rng, n, rng.choice((6, 9)), acq_restarts=1))
    for s in CONTINUOUS:
        out[s] += [planted(rng, c, 12) for c in out[s]]
    return out


# =============================================================================== 3. option ladder
OPTIONS = {
    "anneal": {"temperature": (1e-7, 1.0, 1e9), "cooling": (0.0, 0.5, 1.0, "linear", "log", "const"),
               "min_temp": (1e-300, 1e-8, 10.0, 1e12), "max_iter": (0, 1, 100000), "seed": (0, 2 ** 40, -3)},
    "tabu_search": {"cooldown": (1, 10, 1000), "max_iter": (0, 1, 1000), "max_no_improve": (1, 100, 10 ** 9), "seed": (0, 2 ** 40)},
    "lns": {"start_temp": (1e-12, 100.0, 1e12), "cooling_rate": (0.0, 0.9995, 1.0), "max_iter": (0, 1, 1000),
            "max_no_improve": (1, 100, 10 ** 9), "seed": (0, 2 ** 40)},
    "alns": {"start_temp": (1e-12, 100.0, 1e12), "cooling_rate": (0.0, 0.9995, 1.0), "segment_size": (1, 100, 10 ** 9),
             "reaction_factor": (0.0, 0.1, 1.0), "score_best": (0.0, 3.0, 1e6), "score_better": (0.0, 2.0, 1e6),
             "score_accept": (0.0, 1.0, 1e6), "max_iter": (0, 1, 10000), "max_no_improve": (1, 500, 10 ** 9), "seed": (0, 2 ** 40)},
    "evolve": {"elite_size": (0, 2, 50), "mutation_rate": (0.0, 0.1, 1.0), "adaptive_mutation": (False, True),
               "max_iter": (0, 1, 100), "tournament_k": (1, 3, 50), "seed": (0, 2 ** 40)},
    "differential_evolution": {"population_size": (1, 15, 40), "mutation": (0.0, 0.8, 2.0), "crossover": (0.0, 0.7, 1.0),
                               "strategy": ("rand/1", "best/1", "rand/2", "best/2", "RAND/1", "Best/3"), "max_iter": (0, 1, 1000),
                               "tol": (0.0, 1e-8, 1e9), "seed": (0, 2 ** 40)},
    "particle_swarm": {"n_particles": (1, 30, 60), "max_iter": (0, 1, 1000), "inertia": (0.0, 0.7, 1.5),
                       "inertia_decay": (None, 0.0, 0.4, 2.0), "cognitive": (0.0, 1.5, 4.0), "social": (0.0, 1.5, 4.0),
                       "v_max": (None, 0.0, 1e-9, 1e9), "seed": (0, 2 ** 40)},
    "nelder_mead": {"max_iter": (0, 1, 1000), "tol": (0.0, 1e-6, 1e9), "adaptive": (False, True),
                    "initial_step": (1e-9, 0.05, 100.0, -0.5)},
    "bayesian_opt": {"max_iter": (0, 1, 50), "n_initial": (1, 5, 12), "acquisition": ("ei", "ucb"), "kappa": (0.0, 2.0, 100.0),
                     "acq_restarts": (0, 1, 6), "seed": (0, 2 ** 40)},
    "powell": {"max_iter": (0, 1, 1000), "tol": (0.0, 1e-6, 1e9)},
    "bfgs": {"max_iter": (0, 1, 1000), "tol": (0.0, 1e-6, 1e9)},
    "lbfgs": {"m": (1, 10, 100), "max_iter": (0, 1, 1000), "tol": (0.0, 1e-6, 1e9)},
}
# size of the rest of a case in which one option takes its (possibly expensive) default / extreme value
_OPT_BASE = {"anneal": dict(K=12, mi=40), "tabu_search": dict(K=12, mi=40), "lns": dict(K=12, mi=40), "alns": dict(K=12, mi=40),
             "evolve": dict(K=12, mi=4), "differential_evolution": dict(n=2, mi=4), "particle_swarm": dict(n=2, mi=4),
             "nelder_mead": dict(n=2, mi=15), "bayesian_opt": dict(n=1, mi=7), "powell": dict(n=2, mi=2),
             "bfgs": dict(n=2, mi=5), "lbfgs": dict(n=2, mi=5)}
_SEEDED = ("anneal", "tabu_search", "lns", "alns", "evolve", "differential_evolution", "particle_swarm", "bayesian_opt")


def _legal(s, case):
    """Keep the case inside the documented domain (see the assumptions of the check)."""
    c = case["cfg"]
    if s == "differential_evolution":
        k = int(c.get("strategy", "rand/1").split("/")[1])
        need = 2 * k + (2 if c.get("strategy", "rand/1").lower().startswith("rand") else 1)
        if max(c.get("population_size", 15), 4) < need:
            c["population_size"] = need
        ini = case.get("initial")
        if ini:
            ini["count"] = min(ini["count"], max(c.get("population_size", 15), 4))
    if s == "particle_swarm" and case.get("initial"):
        case["initial"]["count"] = min(case["initial"]["count"], c.get("n_particles", 30))
    if s == "particle_swarm" and c.get("max_iter") == 0:
        c.pop("inertia_decay", None)  # iteration / max_iter is never computed, but keep the case plain
    if s == "anneal" and c.get("min_temp", 1e-8) <= 0:
        c["min_temp"] = 1e-300
    if s == "bayesian_opt" and c.get("n_initial", 5) < 1:
        c["n_initial"] = 1
    return case


def option_ladder(rng, quick):
    out = {s: [] for s in ALL}
    for s in ALL:
        opts = OPTIONS[s]
        base = _OPT_BASE[s]
        reps = 2 if quick else 8
        # (a) one keyword at a time at each listed value, the others as the generator draws them
        for kw, vals in opts.items():
            for v in vals:
                for _ in range(reps if s != "bayesian_opt" else 1):
                    case = MAKE[s](rng, **base)
                    case["cfg"][kw] = v
                    if v is None:
                        case["cfg"].pop(kw)
                    if kw == "max_iter" and isinstance(v, int) and v >= 100:
                        case["stop"] = None if rng.random() < 0.5 else case["stop"]
                        if s in ("tabu_search", "lns", "alns"):
                            case["cfg"]["max_no_improve"] = rng.choice((v + 1, 100))
                    out[s].append(_tag(_legal(s, case), "option", f"{kw}={v}"))
        # (b) every keyword left at the library default: only the required arguments (+ seed); on_progress absent
        for i in range(reps * 2):
            case = MAKE[s](rng, **base)
            keep = {k: v for k, v in case["cfg"].items() if k == "seed"}
            if s == "alns":
                case["accept"] = None
            if s == "lns":
                case["accept"] = "improving"
            if s == "bayesian_opt" and quick and i > 0:
                continue
            case.update(cfg=keep, stop=None, bare=True)
            if case["minimize"] and i % 2:
                case["bare"] = "all"
            out[s].append(_tag(_legal(s, case), "option", "all-defaults"))
        # (c) random combinations of listed values (each keyword: generator's value / a listed value)
        for _ in range((12 if quick else 150) if s != "bayesian_opt" else (4 if quick else 40)):
            case = MAKE[s](rng, **base)
            heavy = 0
            for kw, vals in opts.items():
                if rng.random() < 0.5:
                    v = rng.choice(vals)
                    if kw in ("max_iter", "population_size", "n_particles") and isinstance(v, int) and v >= 30:
                        heavy += 1
                        if heavy > 1:
                            continue
                    if v is None:
                        case["cfg"].pop(kw, None)
                    else:
                        case["cfg"][kw] = v
            out[s].append(_tag(_legal(s, case), "option", "combination"))
            if rng.random() < 0.5:
                out[s].append(planted(rng, out[s][-1], 12))
        # (d) no seed: the run is not repeatable, its books must still be right
        if s in _SEEDED:
            for _ in range(6 if quick else 60):
                case = MAKE[s](rng, **base)
                case["cfg"].pop("seed", None)
                case["seedless"] = True
                out[s].append(_tag(_legal(s, case), "option", "seedless"))
    return out


# =============================================================================== 4. numerics
def numerics(rng, quick):
    out = {s: [] for s in ALL}
    reps = 12 if quick else 200
    for _ in range(reps):
        K = rng.choice((3, 5, 8, 16))
        mi = rng.choice((3, 8, 20, 60))
        for s, f in (("anneal", c_anneal), ("tabu_search", c_tabu), ("lns", c_lns), ("alns", c_alns)):
            out[s].append(_tag(f(rng, K, mi, fine=True), "numeric", "dyadic-table"))
        out["evolve"].append(_tag(c_evolve(rng, K, rng.choice((2, 5, 12)), fine=True), "numeric", "dyadic-table"))
        for fl in ("dyadic", "quant", "kink", "ripple"):
            n = rng.choice((1, 2, 3))
            o = sep(rng, n, fl)
            tol = rng.choice((0.0, E40 / 2, E40, 2 * E40, 1e-9, 1.0000001e-9, 0.9999999e-9))
            out["nelder_mead"].append(_tag(c_nm(rng, n, rng.choice((5, 20, 60)), obj=o, tol=tol), "numeric", fl))
            out["differential_evolution"].append(_tag(c_de(rng, n, rng.choice((3, 10)), obj=o, tol=tol), "numeric", fl))
            out["particle_swarm"].append(_tag(c_pso(rng, n, rng.choice((3, 10)), obj=o), "numeric", fl))
            out["powell"].append(_tag(c_powell(rng, n, rng.choice((1, 2, 3)), obj=o, tol=tol), "numeric", fl))
        # bfgs / lbfgs: kinks reached exactly from grid starts with a one-sided subgradient; inexact (forward-difference)
        # gradients close to the minimiser; steps whose gradient says nothing about f
        for s in ("bfgs", "lbfgs"):
            n = rng.choice((1, 1, 2, 3))
            k = sep(rng, n, "kink")
            out[s].append(_tag(c_bfgs(rng, s, n, rng.choice((1, 2, 3, 5, 9)), obj=k, grad=rng.choice(("right", "left")),
                                      tol=rng.choice((0.0, 1e-6))), "numeric", "kink-one-sided"))
            b = sep(rng, n, rng.choice(("bowl", "ripple", "quant")))
            out[s].append(_tag(c_bfgs(rng, s, n, rng.choice((2, 5, 12, 40)), obj=b, grad={"fd": rng.choice((1e-3, 1e-2, 2.0 ** -8))},
                                      tol=rng.choice((0.0, 1e-6, 1e-9))), "numeric", "forward-difference"))
            d = sep(rng, n, "dyadic")
            d.update(q=rng.choice((E40, 1)), c=[rng.choice((0.0, 0.3)) for _ in range(n)])
            out[s].append(_tag(c_bfgs(rng, s, n, rng.choice((1, 3, 8)), obj=d, grad="right", tol=0.0), "numeric", "dyadic"))
    for _ in range(2 if quick else 30):
        for fl in ("dyadic", "quant", "kink"):
            n = rng.choice((1, 2))
            out["bayesian_opt"].append(_tag(c_bayes(rng, n, rng.choice((5, 9)), obj=sep(rng, n, fl)), "numeric", fl))
    return out


# =============================================================================== 5. history
def _edit(rng, case):
    """A copy of the case with one in-place-style change: an entry edited, something added, or a relabelling."""
    import copy
    c = copy.deepcopy(case)
    s = c["solver"]
    kind = rng.choice(("objective", "objective", "argument", "add", "option", "sense"))
    if kind == "sense":
        c["minimize"] = not c["minimize"]
        return c
    if kind == "option":
        if "seed" in c["cfg"] and rng.random() < 0.5:
            c["cfg"]["seed"] += 1
        else:
            c["cfg"]["max_iter"] = max(1, c["cfg"].get("max_iter", 5) + rng.choice((-1, 1, 3)))
        return c
    o = c["obj"]
    if kind == "objective":
        if o["kind"] == "table":
            o["table"] = dict(o["table"], gen=o["table"]["gen"] + 1)  # same states, every value relabelled
        elif "table" in o and rng.random() < 0.5:
            o["table"] = [v + rng.choice((-1, 0, 1)) for v in o["table"]]
        elif "c" in o:
            o["c"] = [v + rng.choice((-0.5, 0.25)) for v in o["c"]]
        elif "abs" in o:
            o["abs"] = [[a, k + 0.5] for a, k in o["abs"]]
        else:
            o["base"] = o.get("base", 0) + 1
        return c
    if kind == "argument":
        if "start" in c:
            c["start"] = (c["start"] + 1) % o["K"]
        elif "population" in c:
            c["population"][rng.randrange(len(c["population"]))] = rng.randrange(o["K"])
        elif "x0" in c:
            c["x0"][rng.randrange(len(c["x0"]))] += rng.choice((0.5, -1.0))
        if c.get("bounds"):
            i = rng.randrange(len(c["bounds"]))
            c["bounds"][i] = [c["bounds"][i][0] - 0.5, c["bounds"][i][1] + rng.choice((0, 1.0))]
        return c
    # additions
    if o["kind"] == "table" and rng.random() < 0.5:
        o["K"] += rng.choice((1, 3))  # more states (the old ones keep their values, except in 'perm' tables)
    elif s == "evolve":
        c["population"].append(rng.randrange(o["K"]))
    elif s == "alns":
        c["destroy_ops"].append(rng.choice((-1, 1, 2)))
        c["repair_ops"].append(rng.choice((-1, 1)))
        c["cfg"].pop("destroy_weights", None)
        c["cfg"].pop("repair_weights", None)
    elif s == "tabu_search":
        c["moves"] = [m + [rng.choice((-3, 3))] for m in c["moves"]]
    elif s in ("anneal", "lns"):
        c["script"].append(rng.choice((-1, 2)))
    elif s == "differential_evolution":
        c["cfg"]["population_size"] += 1
    elif s == "particle_swarm":
        c["cfg"]["n_particles"] += 1
    elif s == "bayesian_opt":
        c["cfg"]["n_initial"] += 1
        c["cfg"]["max_iter"] += 1
    else:
        c["cfg"]["max_iter"] = c["cfg"].get("max_iter", 5) + 2
    return _legal(s, c)


_HIST_BASE = {"anneal": dict(K=9, mi=25), "tabu_search": dict(K=9, mi=15), "lns": dict(K=9, mi=25), "alns": dict(K=9, mi=25),
              "evolve": dict(K=9, mi=4), "differential_evolution": dict(n=2, mi=4), "particle_swarm": dict(n=2, mi=4),
              "nelder_mead": dict(n=2, mi=15), "bayesian_opt": dict(n=1, mi=6), "powell": dict(n=2, mi=2),
              "bfgs": dict(n=2, mi=5), "lbfgs": dict(n=2, mi=5)}


def histories(rng, quick):
    """solver -> list of {"solver", "history": [case, ...]}: A, A, B = edit(A), B, C = edit(B), A, A."""
    out = {s: [] for s in ALL}
    for s in ALL:
        n = (12 if quick else 150) if s != "bayesian_opt" else (3 if quick else 30)
        for i in range(n):
            a = MAKE[s](rng, **_HIST_BASE[s])
            a["tuples"] = False  # lists: objects that can be edited in place
            if "rep" in a and i % 2 == 0:
                a["rep"] = rng.choice(("list", "cached"))
            if s == "tabu_search":
                a["moves"] = a["moves"][:1]
            b = _edit(rng, a)
            c = _edit(rng, b)
            steps = [a, a, b, b, c, a, a] if s != "bayesian_opt" else [a, b, a, a]
            out[s].append({"solver": s, "history": steps, "family": "history"})
    return out


# =============================================================================== 6. presentation diversity (round 3)
# The structural cases of the other generators, with the SAME problem handed over in another legal presentation.  Pure data:
# checks/C19.py (_call, judge_present) builds the objects once per case, calls the solver twice on them and compares typed
# deep snapshots of everything the caller owns before / after each call.
NBR_KINDS = ("plist", "plist", "plist", "ptuple", "gen", "iter", "map", "zip", "items", "list")
LABEL_KINDS = ("asis", "asis", "none", "str", "fset", "typed", "nested")
VALUE_REPS = ("str", "fset", "float", "nested", "bool01")
_MID_BASE = {"anneal": dict(K=40, mi=120), "tabu_search": dict(K=40, mi=40), "lns": dict(K=40, mi=120), "alns": dict(K=40, mi=120),
             "evolve": dict(K=40, mi=8, pop=12), "differential_evolution": dict(n=4, mi=8), "particle_swarm": dict(n=4, mi=8),
             "nelder_mead": dict(n=4, mi=40), "bayesian_opt": dict(n=2, mi=8), "powell": dict(n=3, mi=3),
             "bfgs": dict(n=4, mi=8), "lbfgs": dict(n=4, mi=8)}


def mid_size(rng, s, count):
    return [MAKE[s](rng, **_MID_BASE[s]) for _ in range(count)]


def present_of(rng, case, none_states=False):
    """A copy of `case` with its presentation drawn afresh:
      discrete solvers   solution objects persistent and owned by the callbacks ('cached') / fresh lists / unusual values
                         ("" frozenset() 0.0 False for state 0, strings, frozensets, a pair whose first entry is a state,
                         True == 1; None as a state only with none_states)
      tabu_search        neighbourhood served from a persistent table (`lambda s: table[s]`: list / tuple), as generator / iter /
                         map / zip objects over it, as the items view of a persistent dict; move labels None / "" / str /
                         frozenset / equal-but-differently-typed numbers / nested pairs
      lns, alns          destroy hands out persistent partial-solution objects; operator and weight containers list / tuple
      evolve             population list / tuple; crossover / mutate hand back persistent objects (cached) or a parent itself
      continuous         bounds as list / tuple of (lo, hi) tuples / [lo, hi] lists; x0 and initial rows list / tuple; the
                         initial population / swarm as list / tuple; gradient results list / tuple / the callback's own buffer"""
    import copy
    c = copy.deepcopy(case)
    for k in ("plant", "seedless", "runs", "bare"):
        c.pop(k, None)
    s = c["solver"]
    p = {"round": 3}
    if s in DISCRETE:
        reps = ("cached", "cached", "list", "int", "tuple") + VALUE_REPS + (("none0", "none0") if none_states else ())
        c["rep"] = rng.choice(reps)
    if s == "tabu_search":
        p["nbr"] = rng.choice(NBR_KINDS)
        p["label"] = rng.choice(LABEL_KINDS)
    elif s == "lns":
        c["destroy"] = rng.choice(("cached", "cached", "same", "copy"))
        if c["destroy"] == "cached" and c.get("repair") == "inplace":
            c["repair"] = "script"
    elif s == "alns":
        p["partial"] = rng.choice(("cached", "cached", "fresh"))
        p["ops"] = rng.choice(("list", "tuple"))
        if "destroy_weights" not in c["cfg"] and rng.random() < 0.5:
            c["cfg"]["destroy_weights"] = [rng.choice((0.1, 1.0, 5.0)) for _ in c["destroy_ops"]]
            c["cfg"]["repair_weights"] = [rng.choice((0.1, 1.0, 5.0)) for _ in c["repair_ops"]]
        p["weights"] = rng.choice(("list", "tuple"))
    elif s == "evolve":
        p["pop"] = rng.choice(("list", "tuple"))
    if s in ("differential_evolution", "particle_swarm", "bayesian_opt", "powell"):
        p["bounds"] = rng.choice(("list", "tuple"))
        p["pair"] = rng.choice(("tuple", "list"))
    if s in ("differential_evolution", "particle_swarm"):
        p["rows"] = rng.choice(("list", "tuple"))
        c["tuples"] = rng.random() < 0.5
        if not c.get("initial") and rng.random() < 0.6:
            size = c["cfg"].get("population_size", c["cfg"].get("n_particles", 4))
            c["initial"] = {"gen": rng.randrange(10 ** 6), "count": rng.randint(1, max(1, min(size, 6))), "outside": rng.choice((0, 0, 4))}
    if s == "nelder_mead":
        c["tuples"] = rng.random() < 0.5
    if s in ("powell", "bfgs", "lbfgs"):
        p["x0"] = rng.choice(("list", "tuple"))
    if s in ("bfgs", "lbfgs"):
        p["grad"] = rng.choice(("list", "tuple", "buffer", "buffer"))
    c["present"] = p
    c["family"] = "presentation"
    return _legal(s, c) if isinstance(c.get("initial"), dict) else c

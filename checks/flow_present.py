"""Presentation diversity for the flow checks (C08 max_flow, C09 min_cost_flow / network_simplex / solve_assignment).

A *presentation* is one of the many legal Python spellings of the same mathematical instance: which hashable values name the
nodes, which numeric type carries an integer, which dict / sequence kinds hold the arcs, which nodes appear as dict keys and in
what order.  The structural generators of the check modules produce instances over nodes 0..n-1 with int payloads; the functions
here dress such an instance up, the solver is called on the dressed-up objects, its answer is mapped back to 0..n-1 and judged by
the ordinary oracle on the plain instance.  Everything is a deterministic function of JSON-able specs (so a violation replays).

Label specs: JSON scalars stand for themselves (int, float, bool, str, null -> None); {"t": [...]} is a tuple, {"fs": [...]} a
frozenset.  Every occurrence of a label in a presented object is decoded afresh, so tuple / frozenset labels that are equal are
not the same object (a solver that compares nodes with `is` instead of `==` is outside the statement's "any node labels").
"""
from __future__ import annotations

import itertools
import random
from collections import OrderedDict, defaultdict

H = 2 ** 61 - 1  # CPython's modulus for int hashes: hash(k) == hash(k + H) for k >= 0; hash(-1) == hash(-2)


def mk_label(spec):
    if isinstance(spec, dict):
        if "t" in spec:
            return tuple(mk_label(x) for x in spec["t"])
        if "fs" in spec:
            return frozenset(mk_label(x) for x in spec["fs"])
        raise ValueError(spec)
    return spec


# ---------------------------------------------------------------------------------------------- label schemes
LABEL_SCHEMES = ("int", "none-s", "none-t", "none-mid", "falsy", "pairs", "nested", "frozenset", "strcollide", "eqtype",
                 "hashcollide", "str", "mixed")
SCHEME_DOC = {
    "int": "0..n-1 (control: only the container / number-type transformers act)",
    "none-s": "source is None", "none-t": "sink is None", "none-mid": "an inner node is None",
    "falsy": "source, sink and up to three more nodes drawn from 0, '', (), None, frozenset()",
    "pairs": "half of the nodes are ints, the others pairs (a, b) of those ints - the same values as the keys of a flow dict",
    "nested": "nested tuples, one node is ()", "frozenset": "frozensets, one node is frozenset()",
    "strcollide": "labels that collide after str(): 1 and '1', None and 'None', (0, 1) and '(0, 1)', '' and ' '",
    "eqtype": "keys spelled 2 or 2.0, the same node named 2.0 / 2 / True / False in arc heads and in the source / sink argument",
    "hashcollide": "ints with equal hashes: -1 and -2, k and k + 2^61 - 1",
    "str": "strings incl. 'source', 'sink', 'L0', 'R0', blanks, non-ASCII",
    "mixed": "int, str, tuple, frozenset, non-integral float, negative int and one None in one graph (not mutually comparable)",
}
FALSY = (0, "", {"t": []}, None, {"fs": []})


def labels_for(scheme, n, s, t, rng):
    """-> (list of n pairwise different label specs, alias {node index (str): spec of an equal, differently typed value})."""
    alias = {}
    if scheme == "int":
        lab = list(range(n))
    elif scheme in ("none-s", "none-t", "none-mid"):
        lab = [i + 1 for i in range(n)] if rng.random() < 0.5 else [f"v{i}" for i in range(n)]
        inner = [x for x in range(n) if x not in (s, t)]
        where = s if scheme == "none-s" else t if scheme == "none-t" or not inner else rng.choice(inner)
        lab[where] = None
    elif scheme == "falsy":
        lab = [i + 10 for i in range(n)]
        pool = list(FALSY)
        rng.shuffle(pool)
        spots = [s, t] + rng.sample([x for x in range(n) if x not in (s, t)], min(max(n - 2, 0), rng.randint(0, 3)))
        for x, v in zip(spots, pool):
            lab[x] = v
    elif scheme == "pairs":
        base = (n + 1) // 2
        pairs = list(itertools.product(range(base), repeat=2))
        rng.shuffle(pairs)
        lab = list(range(base)) + [{"t": list(p)} for p in pairs[:n - base]]
        rng.shuffle(lab)
    elif scheme == "nested":
        lab = [({"t": [i]}, {"t": [{"t": [i]}, "x"]}, {"t": [i, {"t": []}]})[i % 3] for i in range(n)]
        lab[rng.randrange(n)] = {"t": []}
        rng.shuffle(lab)
    elif scheme == "frozenset":
        lab = [({"fs": [i]}, {"fs": [i, "a"]}, {"fs": [{"t": [i]}]})[i % 3] for i in range(n)]
        lab[rng.randrange(n)] = {"fs": []}
        rng.shuffle(lab)
    elif scheme == "strcollide":
        twins = [[None, "None"], [{"t": [0, 1]}, "(0, 1)"], ["", " "]] + [[k, str(k)] for k in range(n)]
        head = twins[:4]
        rng.shuffle(head)
        twins[:4] = head
        lab = [x for tw in twins[:(n + 1) // 2] for x in tw][:n]
        rng.shuffle(lab)
    elif scheme == "eqtype":
        lab = []
        for i in range(n):
            if rng.random() < 0.4:
                lab.append(float(i))
                alias[str(i)] = bool(i) if i in (0, 1) and rng.random() < 0.4 else i
            else:
                lab.append(i)
                alias[str(i)] = bool(i) if i in (0, 1) and rng.random() < 0.4 else float(i)
        perm = list(range(n))
        rng.shuffle(perm)
        lab = [lab[p] for p in perm]
        alias = {str(i): alias[str(perm[i])] for i in range(n)}
    elif scheme == "hashcollide":
        lab = ([-1, -2] + [k + (H if j else 0) for k in range(n) for j in (0, 1)])[:n]
        rng.shuffle(lab)
    elif scheme == "str":
        lab = (["source", "sink", "L0", "R0", "s", "t", "a b", "é", "0", "-1", "None"] + [f"v{i}" for i in range(n)])[:n]
        rng.shuffle(lab)
    elif scheme == "mixed":
        lab = [(i, f"s{i}", {"t": [i, "x"]}, {"fs": [i]}, i + 0.5, -i - 1)[i % 6] for i in range(n)]
        lab[rng.randrange(n)] = None
        rng.shuffle(lab)
    else:
        raise ValueError(scheme)
    vals = [mk_label(x) for x in lab]
    assert len(set(vals)) == n and len(vals) == n, (scheme, lab)
    return lab, alias


# ------------------------------------------------------------------------------------ containers and number types
MAPS = ("dict", "defaultdict", "OrderedDict")
KEY_MODES = ("tails", "all-end", "all-first", "heads-first", "reversed", "some-empty")
KEY_DOC = ("tails: only nodes with an outgoing arc are keys (a node may occur as an arc head only - also the source or the sink); "
           "all-end / all-first / heads-first: every node is a key, head-only nodes with an empty adjacency after / among / before "
           "the tails; reversed: tails in reverse order of first appearance; some-empty: tails plus a random half of the other nodes")


def random_pres(rng, scheme):
    return {"scheme": scheme, "map": rng.choice(("dict", "dict", "defaultdict", "defaultdict", "OrderedDict")),
            "adj": rng.choice(("list", "list", "tuple")), "arc": rng.choice(("tuple", "tuple", "list", "mixed")),
            "num": rng.choice(("int", "int", "float", "mixed", "mixed")), "keys": rng.choice(KEY_MODES),
            "st_alias": rng.random() < 0.5, "seed": rng.randrange(1 << 30)}


def _floaty(payloads, mode, rng):
    """Which payload rows are spelled as floats.  Integers that (times the number of rows) leave the exactly representable
    range stay ints, so that every sum a solver forms is still exact."""
    m = len(payloads)
    safe = all(abs(x) * (m + 2) < 2 ** 52 for p in payloads for x in p if isinstance(x, int))
    if mode == "int" or not safe:
        return [False] * m
    if mode == "float":
        return [True] * m
    return [rng.random() < 0.6 for _ in range(m)]  # mixed; the caller makes the first row in iteration order an int row


def _num(x, as_float):
    return float(x) if as_float else x


def present_graph(n, arcs, labels, alias, pres, junk=0):
    """arcs: [u, v, number, ...] over nodes 0..n-1 -> adjacency mapping {label(u): [(label(v), number, ...), ...]} in the
    presentation `pres`.  junk: number of extra trailing numeric fields per arc record (a cost and one more; max_flow ignores them)."""
    rng = random.Random(pres["seed"])
    tails, seen = [], set()
    for a in arcs:
        if a[0] not in seen:
            seen.add(a[0])
            tails.append(a[0])
    others = [x for x in range(n) if x not in seen]
    mode = pres["keys"]
    if mode == "tails":
        order = tails
    elif mode == "all-end":
        order = tails + others
    elif mode == "all-first":
        order = list(range(n))
    elif mode == "heads-first":
        order = others + tails
    elif mode == "reversed":
        order = tails[::-1]
    elif mode == "some-empty":
        order = tails + [x for x in others if rng.random() < 0.5]
        rng.shuffle(order)
    else:
        raise ValueError(mode)
    fl = _floaty([a[2:] for a in arcs], pres["num"], rng)
    by_tail = {}
    for k, a in enumerate(arcs):
        by_tail.setdefault(a[0], []).append(k)
    if pres["num"] == "mixed":
        for u in order:
            if by_tail.get(u):
                fl[by_tail[u][0]] = False  # int first, floats later
                break
    g = {"dict": dict, "defaultdict": lambda: defaultdict(list), "OrderedDict": OrderedDict}[pres["map"]]()
    for u in order:
        adj = []
        for k in by_tail.get(u, []):
            a = arcs[k]
            head = alias[str(a[1])] if str(a[1]) in alias and rng.random() < 0.5 else labels[a[1]]
            rec = [mk_label(head)] + [_num(x, fl[k]) for x in a[2:]] + [((k * 5) % 7 - 3, -1.5, 0)[(k + j) % 3] for j in range(junk)]
            as_list = pres["arc"] == "list" or (pres["arc"] == "mixed" and rng.random() < 0.5)
            adj.append(rec if as_list else tuple(rec))
        key = alias[str(u)] if str(u) in alias and rng.random() < 0.25 else labels[u]
        g[mk_label(key)] = tuple(adj) if pres["adj"] == "tuple" else adj
    return g


def call_label(i, labels, alias, pres):
    """How node i is spelled in the source / sink argument."""
    if pres.get("st_alias") and str(i) in alias:
        return mk_label(alias[str(i)])
    return mk_label(labels[i])


def present_arc_list(arcs, pres):
    """network_simplex: arcs [u, v, cap, cost] -> list / tuple of tuples / lists with int / float numbers (node ids stay ints)."""
    rng = random.Random(pres["seed"] + 1)
    fl_cap = _floaty([a[2:3] for a in arcs], pres.get("numcap", "int"), rng)
    fl_cost = _floaty([a[3:4] for a in arcs], pres.get("numcost", "int"), rng)
    if arcs:
        fl_cap[0] = fl_cap[0] and pres.get("numcap") == "float"
        fl_cost[0] = fl_cost[0] and pres.get("numcost") == "float"
    out = []
    for k, a in enumerate(arcs):
        rec = [a[0], a[1], _num(a[2], fl_cap[k]), _num(a[3], fl_cost[k])]
        as_list = pres["arc"] == "list" or (pres["arc"] == "mixed" and rng.random() < 0.5)
        out.append(rec if as_list else tuple(rec))
    return tuple(out) if pres.get("arcs_c") == "tuple" else out


def present_vector(vals, mode, container, seed):
    rng = random.Random(seed + 2)
    fl = _floaty([[x] for x in vals], mode, rng)
    if vals and mode == "mixed":
        fl[0] = False
    out = [_num(x, f) for x, f in zip(vals, fl)]
    return tuple(out) if container == "tuple" else out


def present_matrix(mat, pres):
    """solve_assignment: list / tuple of list / tuple rows, int / float / mixed entries (int first)."""
    rng = random.Random(pres["seed"] + 3)
    rows = []
    first = True
    for r in mat:
        fl = _floaty([[x] for x in r], pres["num"], rng)
        if first and r and pres["num"] == "mixed":
            fl[0] = False
        first = first and not r
        row = [_num(x, f) for x, f in zip(r, fl)]
        kind = pres["rows"] if pres["rows"] != "mixed" else rng.choice(("list", "tuple"))
        rows.append(tuple(row) if kind == "tuple" else row)
    return tuple(rows) if pres["outer"] == "tuple" else rows


def snap(*objs):
    """What the caller can observe of its own objects: type, keys / items in order, element types and spellings (repr tells 2 from
    2.0 and a list from a tuple; for a defaultdict it includes the factory)."""
    return [f"{type(o).__name__}:{o!r}" for o in objs]

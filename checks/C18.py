"""C18 - job-shop schedules and VRPTW states are structurally valid and honestly scored (bounded back end).

Top-level contracts, taken from the property statement:

solve_job_shop(jobs, rule, local_search, max_iter, seed[, on_progress])
    ensures  every operation (j,k) has (start,end); end-start == duration; start(j,k+1) >= end(j,k);
             two operations of one machine never share a stretch of positive length;
             objective == latest end time.
    (every schedule that _dispatch/_try_swap hand back during the local search is validated too - the
    "histories" part of the quantifier.)

vrp_ok(state)  :=  every customer != depot is in `unassigned` xor on >= 1 route; never twice on one route;
                   required_vehicles == 1 => exactly one route; arrival_times[v] == travel/wait/service recurrence.
every exported destroy/repair operator op(state, rng, ...):
    requires vrp_ok(state)   ensures vrp_ok(result)   frame: `state` is not mutated
    - on directly generated states, and on EVERY call made during the adaptive search (the operators are
      wrapped inside the imported solvor.vrp module of the worker process; nested calls included).
solve_vrptw(...)  ensures vrp_ok(result.solution) and result.objective == documented weighted sum recomputed
    from the routes of result.solution by oracles/jobshop_vrp.py.
"""
from __future__ import annotations

import itertools
import random
import signal
from math import inf

from vf.core import Ctx, canon, digest, use_repo
from oracles.jobshop_vrp import (close, jobshop_result_problems, jobshop_schedule_problems, num, unnum,
                                 vrp_arrivals, vrp_objective, vrp_ok_problems, vrp_structure_problems)

LEVEL = "exploration"

OPS = ["random_removal", "worst_removal", "related_removal", "route_removal", "sync_removal",
       "greedy_insertion", "regret_insertion", "sync_aware_insertion"]
RULES = ["spt", "lpt", "mwkr", "fifo", "random"]
CASE_TIMEOUT = 90  # CPU s (ITIMER_VIRTUAL), per case (a solver call that does not come back)
MAX_PER_OBLIGATION = 2


_PRIME_W = dict(distance_weight=1.5, vehicle_weight=7.0, tw_penalty=11.0, capacity_penalty=13.0, sync_penalty=17.0,
                unassigned_penalty=19.0)


class _Timeout(Exception):
    pass


def _alarm(_s, _f):
    raise _Timeout()


# =============================================================================================== job shop
class _JSMonitor:
    """Validates every schedule produced by the builders during one solve_job_shop call."""

    def __init__(self, mod, jobs):
        self.mod, self.jobs = mod, jobs
        self.orig = {}
        self.bad = []
        self.n = 0

    def _wrap(self, name):
        orig = self.orig[name]

        def w(*a, **k):
            out = orig(*a, **k)
            if out is not None:
                self.n += 1
                if len(self.bad) < 3:
                    for clause, det in jobshop_schedule_problems(self.jobs, out)[:2]:
                        self.bad.append((name, clause, det))
            return out
        return w

    def __enter__(self):
        for name in ("_dispatch", "_try_swap"):
            if hasattr(self.mod, name):
                self.orig[name] = getattr(self.mod, name)
                setattr(self.mod, name, self._wrap(name))
        return self

    def __exit__(self, *exc):
        for name, f in self.orig.items():
            setattr(self.mod, name, f)


def run_jobshop_case(case):
    """-> (list of (obligation, detail), info)"""
    import solvor.job_shop as js
    jobs = [[(op[0], op[1]) for op in job] for job in case["jobs"]]
    kw = dict(rule=case["rule"], local_search=case["local_search"], max_iter=case["max_iter"], seed=case["seed"])
    if case.get("stop_at") is not None:
        stop_at = case["stop_at"]
        kw["on_progress"] = lambda p: p.iteration >= stop_at
        kw["progress_interval"] = 1
    out = []
    mon = _JSMonitor(js, jobs)
    old = signal.signal(signal.SIGVTALRM, _alarm)
    signal.setitimer(signal.ITIMER_VIRTUAL, CASE_TIMEOUT)
    try:
        try:
            with mon:
                res = js.solve_job_shop(jobs, **kw)
        finally:
            signal.setitimer(signal.ITIMER_VIRTUAL, 0)
    except _Timeout:
        return [("C18/solve_job_shop/returns", f"no result after {CASE_TIMEOUT}s")], {"built": mon.n}
    except Exception as e:  # valid input: any exception means no schedule came back
        return [("C18/solve_job_shop/returns", f"raised {type(e).__name__}: {e}")], {"built": mon.n}
    finally:
        signal.setitimer(signal.ITIMER_VIRTUAL, 0)
        signal.signal(signal.SIGVTALRM, old)
    for clause, det in jobshop_result_problems(jobs, res.solution, res.objective)[:3]:
        out.append((f"C18/solve_job_shop/ensures:{clause}", det))
    for name, clause, det in mon.bad:
        out.append((f"C18/job_shop.{name}/ensures:valid_schedule", f"{clause}: {det}"))
    return out, {"built": mon.n, "objective": res.objective}


class _Collect:
    """Per-chunk violation collector: full counts, but only the first KEEP witnesses per obligation travel
    back to the parent (the chunks are in generation order, smallest cases first)."""
    KEEP = 3

    def __init__(self):
        self.viol, self.nviol, self.nfail = [], {}, 0

    def add(self, case, bad):
        if bad:
            self.nfail += 1
        for obl, det in bad:
            self.nviol[obl] = self.nviol.get(obl, 0) + 1
            if self.nviol[obl] <= self.KEEP:
                self.viol.append((obl, case, det))

    def out(self, **kw):
        kw.update(viol=self.viol, nviol=self.nviol, nfail=self.nfail)
        return kw


def w_jobshop(chunk):
    col, keys, built = _Collect(), [], 0
    for case in chunk:
        bad, info = run_jobshop_case(case)
        built += info.get("built", 0)
        if sum(len(j) for j in case["jobs"]) >= 2:
            keys.append(digest(case))
        col.add(case, bad)
    return col.out(n=len(chunk), keys=keys, built=built)


def _js_jobs_space(max_jobs, max_ops, machines, durations):
    ops = [(m, d) for m in machines for d in durations]
    one = []
    for k in range(1, max_ops + 1):
        one.extend(itertools.product(ops, repeat=k))
    for nj in range(1, max_jobs + 1):
        for jobs in itertools.product(one, repeat=nj):
            yield [[list(op) for op in job] for job in jobs]


def jobshop_cases(ctx, rng):
    """(scope descriptions, cases)"""
    cases = []
    scopes = []
    # --- exhaustive small scope
    if ctx.quick:
        mj, mo, machines, durs = 2, 2, (0, 1), (0, 1, 2)
        cfgs = [(False, 0, 0), (True, 0, 0), (True, 1, 0), (True, 6, 1)]
    else:
        mj, mo, machines, durs = 3, 2, (0, 1), (0, 1, 2)
        cfgs = [(False, 0, 0), (True, 0, 0), (True, 1, 0), (True, 6, 1), (True, 40, 2)]
    n0 = len(cases)
    for jobs in _js_jobs_space(mj, mo, machines, durs):
        if not ctx.quick and len(jobs) == 3 and sum(len(j) for j in jobs) == 6 and rng.random() < 0.85:
            continue  # thorough: 15% of the largest stratum (sampled, declared below)
        for rule in RULES:
            for ls, mi, seed in cfgs:
                if ls and mi == 0 and rule not in ("spt", "random"):
                    continue  # the zero-length local search does not depend on the rule beyond the first dispatch
                cases.append({"kind": "jobshop", "jobs": jobs, "rule": rule, "local_search": ls, "max_iter": mi, "seed": seed})
    scopes.append(dict(name="job shop exhaustive", jobs=f"1..{mj}", ops_per_job=f"1..{mo}", machines=list(machines),
                       durations=list(durs), rules=RULES, configs="(local_search,max_iter,seed) in " + repr(cfgs),
                       cases=len(cases) - n0,
                       exhaustive=bool(ctx.quick),
                       note="" if ctx.quick else "3-job/6-operation stratum sampled at 15%, everything smaller complete"))
    # --- 3 jobs x 3 ops on a tiny alphabet (repeated machines inside a job, zero durations)
    n0 = len(cases)
    ops = [(0, 0), (0, 2), (1, 1)]
    jobs3 = list(itertools.product(ops, repeat=3))
    trip = list(itertools.combinations_with_replacement(jobs3, 3))
    rng.shuffle(trip)
    for jobs in trip[: (250 if ctx.quick else 3000)]:
        jl = [[list(op) for op in job] for job in jobs]
        for rule in RULES:
            cases.append({"kind": "jobshop", "jobs": jl, "rule": rule, "local_search": True,
                          "max_iter": rng.choice([0, 5, 50]), "seed": rng.randrange(21)})
    scopes.append(dict(name="job shop 3x3 tiny alphabet", ops=ops, cases=len(cases) - n0, sampled_of=len(trip) * len(RULES)))
    # --- random: sparse / large machine indices, many ties and zeros, rule spelling, early stop
    n0 = len(cases)
    R = 1500 if ctx.quick else 20000
    for _ in range(R):
        nj = rng.choice([1, 2, 3, 3, 4, 5, 6])
        mset = rng.choice([[0, 1], [0, 1, 2], [0, 3, 7], [5], [2, 9], [0, 1, 2, 3, 4]])
        dset = rng.choice([[0, 1], [0, 0, 1, 2, 3], [1, 2, 3, 4, 5], [0], [2], [0, 1, 5, 9], [3, 3, 3, 7]])
        jobs = []
        for _j in range(nj):
            k = rng.choice([1, 2, 3, 3, 4, 5])
            job = []
            for _k in range(k):
                m = job[-1][0] if job and rng.random() < 0.25 else rng.choice(mset)
                job.append([m, rng.choice(dset)])
            jobs.append(job)
        rule = rng.choice(RULES)
        if rng.random() < 0.15:
            rule = rng.choice([rule.upper(), rule.capitalize()])
        c = {"kind": "jobshop", "jobs": jobs, "rule": rule, "local_search": rng.random() < 0.9,
             "max_iter": rng.choice([0, 1, 2, 5, 20, 50, 150, 400]), "seed": rng.choice([None, 0, 1, 2, 7, 20, rng.randrange(10 ** 6)])}
        if c["seed"] is None and (c["rule"].lower() == "random" or c["local_search"]):
            c["seed"] = rng.randrange(21)  # keep every case reproducible
        if rng.random() < 0.12:
            c["stop_at"] = rng.choice([1, 2, 5])
        cases.append(c)
    scopes.append(dict(name="job shop random", cases=len(cases) - n0, jobs="1..6", ops_per_job="1..5",
                       machine_sets="dense, sparse (0,3,7), single, offset (2,9)", durations="0..9 with many ties/zeros",
                       max_iter=[0, 1, 2, 5, 20, 50, 150, 400], early_stop="12% via on_progress"))
    return scopes, cases


# =============================================================================================== VRP
def _plain_customers(case):
    """Oracle-side customers: index 0 = depot."""
    dx, dy = case["depot"]
    out = [(0, dx, dy, 0.0, 0.0, inf, 0.0, 1)]
    for c in case["customers"]:
        out.append((c[0], c[1], c[2], c[3], c[4], unnum(c[5]), c[6], c[7]))
    return out


def _plain_vehicles(case):
    v = case["vehicles"]
    if isinstance(v, int):
        return [(i, unnum(case.get("vehicle_capacity"))) for i in range(v)]
    return [(x[0], unnum(x[1])) for x in v]


def _snap(state):
    return ([list(r) for r in state.routes], sorted(state.unassigned), [list(a) for a in state.arrival_times],
            {k: sorted(v) for k, v in state.sync_assignments.items()})


class _VRPMonitor:
    """Wraps every exported operator of the imported solvor.vrp module: each call's input and output state is
    checked against the oracle's vrp_ok, and the input is compared with a snapshot taken before the call."""

    def __init__(self, mod, customers, n_vehicles, limit=4):
        self.mod, self.customers, self.nv, self.limit = mod, customers, n_vehicles, limit
        self.orig = {}
        self.calls = {op: 0 for op in OPS}
        self.skipped_pre = 0
        self.depth = 0
        self.bad = []       # (op, clause, detail)
        self.n_bad = {}
        self.seq = 0

    def _note(self, op, clause, det):
        k = (op, clause)
        self.n_bad[k] = self.n_bad.get(k, 0) + 1
        if self.n_bad[k] == 1 and len(self.bad) < self.limit:
            self.bad.append((op, clause, det))

    def _wrap(self, op):
        orig = self.orig[op]

        def w(state, rng, *a, **k):
            self.seq += 1
            idx = self.seq
            self.calls[op] += 1
            before = _snap(state)
            pre = vrp_ok_problems(self.customers, self.nv, before[0], before[1], before[2])
            self.depth += 1
            try:
                out = orig(state, rng, *a, **k)
            finally:
                self.depth -= 1
            after = _snap(state)
            where = f"call #{idx} {op}{a if a else ''}{k if k else ''}" + (" (nested)" if self.depth else "")
            if after != before:
                self._note(op, "frame:input-not-mutated", f"{where}: input state changed from routes={before[0]} unassigned={before[1]} "
                                                            f"to routes={after[0]} unassigned={after[1]}")
            if pre:
                self.skipped_pre += 1
                return out
            o = _snap(out)
            for clause, det in vrp_ok_problems(self.customers, self.nv, o[0], o[1], o[2]):
                self._note(op, f"ensures:vrp_ok/{clause}",
                           f"{where}: input routes={before[0]} unassigned={before[1]} -> output routes={o[0]} unassigned={o[1]}: {det}")
            return out
        return w

    def __enter__(self):
        for op in OPS:
            self.orig[op] = getattr(self.mod, op)
            setattr(self.mod, op, self._wrap(op))
        return self

    def __exit__(self, *exc):
        for op, f in self.orig.items():
            setattr(self.mod, op, f)


def _build_problem(vm, case):
    pc = _plain_customers(case)
    if case.get("as_tuples"):
        customers = []
        for c in pc[1:]:
            t = tuple(c)
            # drop trailing fields that equal the documented defaults (short tuples are accepted)
            defaults = (None, None, None, 0.0, 0.0, inf, 0.0, 1)
            while len(t) > max(3, case.get("min_tuple", 3)) and t[-1] == defaults[len(t) - 1]:
                t = t[:-1]
            customers.append(t)
    else:
        customers = [vm.Customer(*c) for c in pc[1:]]
    v = case["vehicles"]
    vehicles = v if isinstance(v, int) else [vm.Vehicle(x[0], unnum(x[1])) for x in v]
    return customers, vehicles


def run_vrp_solve_case(case):
    """-> (list of (obligation, detail), info)"""
    import solvor.vrp as vm
    pc, pv = _plain_customers(case), _plain_vehicles(case)
    customers, vehicles = _build_problem(vm, case)
    w = case.get("weights") or {}
    kw = dict(depot=tuple(case["depot"]), max_iter=case["max_iter"], max_no_improve=case["max_no_improve"], seed=case["seed"], **w)
    if isinstance(case["vehicles"], int) and case.get("vehicle_capacity") is not None:
        kw["vehicle_capacity"] = case["vehicle_capacity"]
    if case.get("stop_at") is not None:
        stop_at = case["stop_at"]
        kw["on_progress"] = lambda p: p.iteration >= stop_at
        kw["progress_interval"] = 1
    mon = _VRPMonitor(vm, pc, len(pv))
    info = {"calls": mon.calls, "skipped": 0}
    old = signal.signal(signal.SIGVTALRM, _alarm)
    signal.setitimer(signal.ITIMER_VIRTUAL, CASE_TIMEOUT)
    res = None
    out = []
    try:
        try:
            with mon:
                res = vm.solve_vrptw(customers, vehicles, **kw)
        finally:
            signal.setitimer(signal.ITIMER_VIRTUAL, 0)
    except _Timeout:
        out.append(("C18/solve_vrptw/returns", f"no result after {CASE_TIMEOUT}s"))
    except Exception as e:
        out.append(("C18/solve_vrptw/returns", f"raised {type(e).__name__}: {e}"))
    finally:
        signal.setitimer(signal.ITIMER_VIRTUAL, 0)
        signal.signal(signal.SIGVTALRM, old)
    info["skipped"] = mon.skipped_pre
    for op, clause, det in mon.bad:
        out.append((f"C18/{op}/{clause}", det + f"  [{mon.n_bad[(op, clause)]} such call(s) in this run]"))
    if res is None:
        return out, info
    st = res.solution
    try:
        routes, un, arr, _ = _snap(st)
    except Exception as e:
        out.append(("C18/solve_vrptw/returns", f"solution is not a VRPState: {type(e).__name__}: {e}"))
        return out, info
    probs = vrp_ok_problems(pc, len(pv), routes, un, arr)
    seen = set()
    for clause, det in probs:
        if clause not in seen:
            seen.add(clause)
            out.append((f"C18/solve_vrptw/ensures:vrp_ok/{clause}", f"result routes={routes} unassigned={un}: {det}"))
    if not any(c in ("twice-on-route", "unknown-id", "routes-shape") for c, _ in probs):
        exp, parts = vrp_objective(pc, pv, routes, un, **w)
        if not close(res.objective, exp):
            out.append(("C18/solve_vrptw/ensures:objective",
                        f"objective {res.objective!r} but weighted sum of routes={routes} unassigned={un} is {exp!r} ({parts})"))
    info["routes"] = routes
    return out, info


def w_vrp_solve(chunk):
    col, keys = _Collect(), []
    calls = {op: 0 for op in OPS}
    skipped = 0
    for case in chunk:
        bad, info = run_vrp_solve_case(case)
        for op, n in info["calls"].items():
            calls[op] += n
        skipped += info["skipped"]
        if len(case["customers"]) >= 2 and sum(info["calls"].values()) >= 2:
            keys.append(digest(case))
        col.add(case, bad)
    return col.out(n=len(chunk), keys=keys, calls=calls, skipped=skipped)


def _make_state(vm, case):
    pc, pv = _plain_customers(case), _plain_vehicles(case)
    custs = [vm.Customer(*c) for c in pc]
    vehs = [vm.Vehicle(i, cap) for i, cap in pv]
    st = vm.VRPState.from_problem(custs, vehs)
    st.routes = [list(r) for r in case["routes"]]
    st.unassigned = set(case["unassigned"])
    st.arrival_times = [vrp_arrivals(pc, r) for r in st.routes]
    sa = {}
    for v, r in enumerate(st.routes):
        for c in r:
            if pc[c][7] > 1:
                sa.setdefault(c, set()).add(v)
    st.sync_assignments = sa
    if not case.get("dist_cache", True):
        st._dist = None
    return st, pc, pv


def run_vrp_op_case(case):
    import solvor.vrp as vm
    st, pc, pv = _make_state(vm, case)
    before = _snap(st)
    pre = vrp_ok_problems(pc, len(pv), before[0], before[1], before[2])
    if pre:
        raise AssertionError(f"generator produced a state that is not vrp_ok: {pre}")
    op = case["op"]
    out = []
    try:
        res = getattr(vm, op)(st, random.Random(case["seed"]), **case.get("args", {}))
    except Exception as e:
        return [(f"C18/{op}/returns", f"raised {type(e).__name__}: {e}")], {"changed": False}
    after = _snap(st)
    if after != before:
        out.append((f"C18/{op}/frame:input-not-mutated", f"input changed from routes={before[0]} unassigned={before[1]} arrivals={before[2]} "
                                                         f"to routes={after[0]} unassigned={after[1]} arrivals={after[2]}"))
    o = _snap(res)
    seen = set()
    for clause, det in vrp_ok_problems(pc, len(pv), o[0], o[1], o[2]):
        if clause not in seen:
            seen.add(clause)
            out.append((f"C18/{op}/ensures:vrp_ok/{clause}", f"output routes={o[0]} unassigned={o[1]}: {det}"))
    # the documented objective of any operator output, recomputed
    if not any(c in ("twice-on-route", "unknown-id", "routes-shape") for c in seen):
        try:
            for w in ({}, _PRIME_W):  # defaults, and weights that make every term visible
                exp, parts = vrp_objective(pc, pv, o[0], o[1], **w)
                got = vm.vrp_objective(res, **w)
                if "arrival-times" not in seen and not close(got, exp):
                    out.append(("C18/vrp_objective/ensures:weighted-sum", f"vrp_objective({w}) = {got!r}, recomputed {exp!r} ({parts}) on routes={o[0]} unassigned={o[1]}"))
                    break
        except Exception as e:
            out.append(("C18/vrp_objective/returns", f"raised {type(e).__name__}: {e}"))
    return out, {"changed": (o[0], o[1]) != (before[0], before[1])}


def w_vrp_op(chunk):
    col, keys = _Collect(), []
    for case in chunk:
        bad, info = run_vrp_op_case(case)
        if info["changed"]:
            keys.append(digest(case))
        col.add(case, bad)
    return col.out(n=len(chunk), keys=keys)


# ----------------------------------------------------------------------------------------------- generators


def _rand_weights(rng):
    if rng.random() < 0.55:
        return {}
    w = {}
    if rng.random() < 0.6:
        w["distance_weight"] = rng.choice([0.0, 1.0, 2.5])
    if rng.random() < 0.5:
        w["vehicle_weight"] = rng.choice([0.0, 10.0, 1.5])
    if rng.random() < 0.5:
        w["tw_penalty"] = rng.choice([0.0, 7.0, 1000.0])
    if rng.random() < 0.5:
        w["capacity_penalty"] = rng.choice([0.0, 3.0, 1000.0])
    if rng.random() < 0.5:
        w["sync_penalty"] = rng.choice([0.0, 11.0, 10000.0])
    return w


def _rand_customers(rng, n, depot, p_multi):
    custs = []
    for i in range(1, n + 1):
        r = rng.random()
        if custs and r < 0.15:
            x, y = custs[rng.randrange(len(custs))][1:3]           # duplicate location
        elif r < 0.22:
            x, y = depot                                           # sits on the depot
        else:
            x, y = rng.randint(-3, 4), rng.randint(-3, 4)
        d = ((x - depot[0]) ** 2 + (y - depot[1]) ** 2) ** 0.5
        dem = rng.choice([0, 0, 1, 2, 3, 5])
        m = rng.random()
        if m < 0.40:
            tws, twe = 0.0, None
        elif m < 0.55:
            tws, twe = 0.0, float(rng.choice([6, 12, 20]))
        elif m < 0.72:
            tws = float(rng.randint(1, 8))
            twe = tws + rng.choice([0, 1, 3])
        elif m < 0.86:
            tws, twe = 0.0, (d * 0.5 if d > 0 else 0.0)            # cannot be reached in time from the depot
        else:
            tws, twe = 0.0, d                                      # reachable exactly at tw_end (tie)
        svc = rng.choice([0, 0, 1, 2])
        q = rng.random()
        req = 1 if q >= p_multi else (2 if q >= p_multi * 0.3 else 3)
        custs.append([i, x, y, dem, tws, twe, svc, req])
    return custs


def _rand_vehicles(rng, vmax):
    V = rng.choice([1, 2, 2, 3, 3][: 2 * vmax - 1])
    caps = [None, None, 2, 3, 5, 8]
    if rng.random() < 0.5:
        return V, rng.choice(caps)
    return [[i, rng.choice(caps)] for i in range(V)], None


def vrp_solve_cases(ctx, rng):
    cases, scopes = [], []
    # --- exhaustive small grid: 1..2 customers (smallest failing instances come from here)
    pos = [(1, 0), (0, 2)]
    dems = [1, 3]
    tws = [(0.0, None), (0.0, 0.5), (3.0, 4.0)]
    reqs = [1, 2]
    svcs = [1] if ctx.quick else [0, 1]
    grid = [(p, d, t, s, r) for p in pos for d in dems for t in tws for s in svcs for r in reqs]
    fleets = [(1, None), (2, None), (2, 3)] if ctx.quick else [(1, None), (2, None), (2, 3), (3, None), (3, 3)]
    seeds = [0] if ctx.quick else [0, 1]
    n0 = len(cases)
    for n in (1, 2):
        for combo in itertools.product(grid, repeat=n):
            custs = [[i + 1, p[0], p[1], d, t[0], t[1], s, r] for i, (p, d, t, s, r) in enumerate(combo)]
            for V, cap in fleets:
                for seed in seeds:
                    cases.append({"kind": "vrp_solve", "customers": custs, "vehicles": V, "vehicle_capacity": cap, "depot": [0, 0],
                                  "max_iter": 25, "max_no_improve": 25, "seed": seed})
    scopes.append(dict(name="solve_vrptw exhaustive grid", customers="1..2", positions=pos, demands=dems, windows=tws, service=svcs,
                       required_vehicles=reqs, fleets=fleets, seeds=seeds, max_iter=25, cases=len(cases) - n0, exhaustive=True))
    # --- random
    n0 = len(cases)
    R = 900 if ctx.quick else 9000
    for i in range(R):
        depot = rng.choice([[0, 0], [0, 0], [1, 1], [-2, 3]])
        n = rng.choice([1, 2, 3, 3, 4, 4, 5, 6] if ctx.quick else [1, 2, 3, 3, 4, 4, 5, 6, 7, 8])
        p_multi = rng.choice([0.0, 0.3, 0.5, 0.8])
        custs = _rand_customers(rng, n, depot, p_multi)
        veh, cap = _rand_vehicles(rng, 3)
        c = {"kind": "vrp_solve", "customers": custs, "vehicles": veh, "vehicle_capacity": cap, "depot": depot,
             "max_iter": rng.choice([0, 1, 3, 20, 60, 150] if ctx.quick else [0, 1, 3, 20, 60, 150, 600]),
             "max_no_improve": rng.choice([1, 5, 40, 500]), "seed": rng.randrange(10 ** 4)}
        w = _rand_weights(rng)
        if w:
            c["weights"] = w
        if rng.random() < 0.3:
            c["as_tuples"] = True
            c["min_tuple"] = rng.choice([3, 8])
        if rng.random() < 0.25:
            # early stop through on_progress: the returned state must still be the one the objective belongs to
            c["stop_at"] = rng.choice([1, 2, 5, 12, 30])
            c["max_iter"] = max(c["max_iter"], 60)
            c["max_no_improve"] = 500
        cases.append(c)
    scopes.append(dict(name="solve_vrptw random", cases=len(cases) - n0, customers="1..6" if ctx.quick else "1..8", vehicles="1..3 (int+capacity or Vehicle list, mixed capacities)",
                       features="duplicate locations, customers on the depot, zero demand, demand>capacity, unreachable / tie / late windows, "
                                "required_vehicles 1..3 (also > fleet), non-default weights incl. 0, tuples vs Customer, early stop, max_iter incl. 0"))
    return scopes, cases


def _enum_states(pc, V):
    """All vrp_ok states of an instance: each customer unassigned or on a non-empty set of routes (one route if
    single-vehicle); every order inside every route."""
    n = len(pc) - 1
    subsets = [s for k in range(1, V + 1) for s in itertools.combinations(range(V), k)]
    options = []
    for c in range(1, n + 1):
        opts = [None] + [s for s in subsets if len(s) == 1 or pc[c][7] > 1]
        options.append(opts)
    for place in itertools.product(*options):
        members = [[] for _ in range(V)]
        un = []
        for c, s in enumerate(place, start=1):
            if s is None:
                un.append(c)
            else:
                for v in s:
                    members[v].append(c)
        for perms in itertools.product(*[itertools.permutations(m) for m in members]):
            yield [list(p) for p in perms], un


def _op_variants(full):
    deg = [0.0, 0.2, 0.5, 1.0] if full else [0.2, 1.0]
    out = []
    for op in ("random_removal", "worst_removal", "related_removal"):
        out += [(op, {"degree": d}) for d in deg]
    out += [("route_removal", {"n_routes": k}) for k in ((0, 1, 2, 3) if full else (1, 2))]
    out += [("route_removal", {}), ("sync_removal", {}), ("greedy_insertion", {}), ("sync_aware_insertion", {})]
    out += [("regret_insertion", {"k": k}) for k in ((1, 2, 3) if full else (2, 3))]
    return out


def vrp_op_cases(ctx, rng):
    cases, scopes = [], []
    # --- exhaustive: all vrp_ok states of a few tiny instances x every operator x parameter variants x seeds
    insts = [
        # c1 single, c2 needs 2 vehicles; plenty of room
        dict(customers=[[1, 1, 0, 1, 0.0, None, 0, 1], [2, 0, 2, 1, 0.0, None, 1, 2]], vehicles=[[0, None], [1, None]]),
        # one multi-vehicle customer that only fits one vehicle (capacity) and one with an unreachable window
        dict(customers=[[1, 1, 0, 3, 0.0, None, 0, 2], [2, 0, 2, 1, 0.0, 0.5, 0, 2]], vehicles=[[0, 3], [1, 2]]),
        dict(customers=[[1, 1, 0, 1, 0.0, None, 0, 1], [2, 0, 2, 2, 2.0, 5.0, 1, 2], [3, 1, 0, 1, 0.0, None, 2, 3]],
             vehicles=[[0, None], [1, 4]]),
    ]
    if not ctx.quick:
        insts += [
            dict(customers=[[1, 1, 0, 1, 0.0, None, 0, 1], [2, 0, 2, 2, 2.0, 5.0, 1, 2], [3, 1, 0, 1, 0.0, None, 2, 3]],
                 vehicles=[[0, None], [1, 4], [2, 1]]),
            dict(customers=[[1, 0, 0, 0, 0.0, 0.0, 0, 1], [2, 0, 2, 2, 0.0, 2.0, 1, 1], [3, 0, 2, 5, 1.0, 1.0, 0, 2], [4, 3, 4, 1, 0.0, None, 1, 2]],
                 vehicles=[[0, 5], [1, None]]),
        ]
    seeds = [0, 1] if ctx.quick else [0, 1, 2, 3]
    variants = _op_variants(full=not ctx.quick)
    n0 = len(cases)
    nstates = 0
    for inst in insts:
        base = {"kind": "vrp_op", "customers": inst["customers"], "vehicles": inst["vehicles"], "depot": [0, 0]}
        pc = _plain_customers(base)
        for routes, un in _enum_states(pc, len(inst["vehicles"])):
            nstates += 1
            for op, args in variants:
                for seed in seeds:
                    c = dict(base)
                    c.update(routes=routes, unassigned=un, op=op, args=args, seed=seed)
                    cases.append(c)
    scopes.append(dict(name="operators on all vrp_ok states of tiny instances", instances=len(insts), states=nstates, variants=len(variants), seeds=seeds,
                       cases=len(cases) - n0, exhaustive=True))
    # --- random states of random instances
    n0 = len(cases)
    R = 2500 if ctx.quick else 60000
    variants = _op_variants(full=True)
    for _ in range(R):
        depot = rng.choice([[0, 0], [0, 0], [1, 1]])
        n = rng.choice([1, 2, 3, 4, 5, 6, 7])
        custs = _rand_customers(rng, n, depot, rng.choice([0.0, 0.4, 0.7]))
        V = rng.choice([1, 2, 3, 4])
        vehs = [[i, rng.choice([None, None, 2, 3, 5, 8])] for i in range(V)]
        routes = [[] for _ in range(V)]
        un = []
        for c in custs:
            r = rng.random()
            if r < 0.3:
                un.append(c[0])
                continue
            k = 1 if c[7] == 1 else rng.randint(1, V)
            for v in rng.sample(range(V), k):
                routes[v].insert(rng.randint(0, len(routes[v])), c[0])
        op, args = rng.choice(variants)
        cases.append({"kind": "vrp_op", "customers": custs, "vehicles": vehs, "depot": depot, "routes": routes, "unassigned": un,
                      "op": op, "args": args, "seed": rng.randrange(1000), "dist_cache": rng.random() < 0.8})
    scopes.append(dict(name="operators on random vrp_ok states", cases=len(cases) - n0, customers="1..7", vehicles="1..4",
                       features="multi-vehicle customers on 1..V routes, 30% unassigned, with/without cached distance matrix"))
    return scopes, cases


# =============================================================================================== driver
def _chunks(lst, size):
    return [lst[i:i + size] for i in range(0, len(lst), size)]


def run(ctx: Ctx):
    from vf.prove import prove
    prove(ctx, ["specs.misc"], "C18")  # deductive part (specs/misc.py)
    from vf.pool import pmap
    use_repo()
    rng = random.Random(ctx.seed)
    js_scopes, js_cases = jobshop_cases(ctx, rng)
    so_scopes, so_cases = vrp_solve_cases(ctx, rng)
    op_scopes, op_cases = vrp_op_cases(ctx, rng)
    for s in js_scopes + so_scopes + op_scopes:
        name = s.pop("name")
        ctx.scope(name, **s)
    # one pool for everything: tag chunks, dispatch in a single map so that all 16 cores stay busy
    work = [("js", ch) for ch in _chunks(js_cases, 400)] + [("so", ch) for ch in _chunks(so_cases, 25)] + \
           [("op", ch) for ch in _chunks(op_cases, 500)]
    order = list(range(len(work)))
    random.Random(1).shuffle(order)  # balance the load; results are put back in order below
    res = pmap(_dispatch_chunk, [work[i] for i in order], chunksize=1)
    back = [None] * len(work)
    for i, r in zip(order, res):
        back[i] = r
    calls = {op: 0 for op in OPS}
    skipped = built = 0
    samples = []
    by_obl: dict[str, int] = {}
    kept: dict = {}
    failing_cases = {"js": 0, "so": 0, "op": 0}
    for (tag, ch), r in zip(work, back):
        ctx.count(r["n"], set(r["keys"]))
        failing_cases[tag] += r["nfail"]
        for obl, n in r["nviol"].items():
            by_obl[obl] = by_obl.get(obl, 0) + n
        for obl, case, det in r["viol"]:
            # the driver writes at most 2 replays per obligation and 41 in all: hand over the first
            # MAX_PER_OBLIGATION violations per obligation that are not absorbed by known_findings.json
            # (cases are generated smallest first), count the rest
            # (one in-search and one direct-call witness where both exist)
            kk = obl if tag == "js" else (obl, tag)
            if kept.get(kk, 0) < (MAX_PER_OBLIGATION if tag == "js" else 1):
                n_before = len(ctx.violations)
                ctx.violation(obl, case, det)
                if len(ctx.violations) > n_before:
                    kept[kk] = kept.get(kk, 0) + 1
            elif ctx._known_match({"property": ctx.pid, "obligation": obl, "case": case, "detail": det}) is not None:
                ctx.violation(obl, case, det)  # keeps the known-finding hit counter honest
        if tag == "so":
            for op, n in r["calls"].items():
                calls[op] += n
            skipped += r["skipped"]
        if tag == "js":
            built += r["built"]
    for lst in (js_cases, so_cases, op_cases):
        samples += [lst[0], lst[len(lst) // 2], lst[-1]]
    ctx.count(0, (), samples)
    ctx.notes["operator_calls_checked_inside_search"] = calls
    ctx.notes["operator_calls_with_broken_input_skipped"] = skipped
    ctx.notes["job_shop_schedules_validated_inside_search"] = built
    ctx.notes["violating_evaluations_by_obligation"] = dict(sorted(by_obl.items()))
    ctx.notes["failing_cases"] = {"job_shop": failing_cases["js"], "solve_vrptw": failing_cases["so"],
                                  "operator_direct": failing_cases["op"]}
    ctx.notes["cases"] = {"job_shop": len(js_cases), "solve_vrptw": len(so_cases), "operator_direct": len(op_cases)}
    ctx.rule = ("job shop: exhaustive small alphabet x rules x (local_search,max_iter,seed), a 3x3 tiny-alphabet stratum and seeded random "
                "instances (sparse machine ids, ties, zero durations, repeated machines, early stop); non-trivial = at least two operations; "
                "VRP solve: exhaustive attribute grid for 1..2 customers x fleets x seeds plus seeded random instances; non-trivial = at least "
                "two customers and at least two operator calls inside the search; operators: every vrp_ok state of tiny instances x every "
                "operator/parameter/seed plus random states; non-trivial = the operator changed routes or unassigned; distinct = different case JSON")
    ctx.assumptions += [
        "customer ids are 1..n in list order (solve_vrptw indexes its customer list by id; the docs' examples do the same)",
        "job-shop durations are non-negative integers and every job has at least one operation (anything else raises ValueError by design)",
        "the 'documented weighted sum' is distance_weight*distance + vehicle_weight*routes_used + tw_penalty*lateness + capacity_penalty*overload "
        "+ sync_penalty*sync_violation + 100000*|unassigned| with sync_violation = 1000 per missing vehicle else spread of arrival times "
        "(docs/algorithms/combinatorial/vrp.md parameter table + docstrings); float comparison with relative tolerance 1e-9",
        "an operator is only held to ensures vrp_ok(result) when its input satisfied vrp_ok (calls on already broken states are counted, not judged)",
        "a multi-vehicle customer may be on any number >= 1 of routes (the statement asks no more)",
        "overlap on a machine = the two processing intervals share a stretch of positive length (a zero-duration operation overlaps nothing)",
    ]
    ctx.trusted += ["oracles/jobshop_vrp.py (plain recomputation; no solvor import)", "random.Random determinism", "multiprocessing fork pool"]


def _dispatch_chunk(item):
    tag, ch = item
    if tag == "js":
        return w_jobshop(ch)
    if tag == "so":
        return w_vrp_solve(ch)
    return w_vrp_op(ch)


def run_case(case):
    k = case.get("kind")
    if k == "jobshop":
        return run_jobshop_case(case)[0]
    if k == "vrp_solve":
        return run_vrp_solve_case(case)[0]
    if k == "vrp_op":
        return run_vrp_op_case(case)[0]
    raise ValueError(f"unknown case kind {k!r}")


def replay(rec):
    use_repo()
    bad = run_case(rec["case"])
    same = [b for b in bad if b[0] == rec.get("obligation")]
    for obl, det in bad:
        print(f"replay: {obl} :: {det[:400]}")
    if not bad:
        print("replay: no violation")
    return 1 if (same or bad) else 0

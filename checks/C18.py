"""C18 - job-shop schedules and VRPTW states are structurally valid and honestly scored (bounded back end).

Top-level contracts, taken from the property statement:

solve_job_shop(jobs, rule, local_search, max_iter, seed[, on_progress])
    ensures  every operation (j,k) has (start,end); end-start == duration; start(j,k+1) >= end(j,k);
             two operations of one machine never share a stretch of positive length;
             objective == latest end time.
    (every schedule that _dispatch/_try_swap hand back during the local search is validated too - the
    "histories" part of the quantifier.)

vrp_ok(state)  :=  every customer != depot is in `unassigned` xor on >= 1 route; never twice on one route;
                   required_vehicles == 1 => exactly one route; arrival_times[v] == travel/wait/service recurrence.
every exported destroy/repair operator op(state, rng, ...):
    requires vrp_ok(state)   ensures vrp_ok(result)   frame: `state` is not mutated
    - on directly generated states, and on EVERY call made during the adaptive search (the operators are
      wrapped inside the imported solvor.vrp module of the worker process; nested calls included).
solve_vrptw(...)  ensures vrp_ok(result.solution) and result.objective == documented weighted sum recomputed
    from the routes of result.solution by oracles/jobshop_vrp.py.

Beyond the small scope (same contracts, inputs that small-scope enumeration cannot reach; generators in
oracles/jobshop_vrp_gen.py, every family draws from its own seeded stream):
  size ladder     planted job shops of 35..1800 operations (sizes around 64/128/256/512/1024 operations) and planted
                  VRPTW instances of 10..300 customers on 1..15 vehicles (windows laid around the planted arrivals: open,
                  loose, tight, meeting exactly; capacities equal to the planted loads).  The verdict never needs an
                  optimum: every schedule / state that comes back - and every one built inside the search - is checked
                  completely against the constraint semantics and re-scored, which is cheap at any size.  The swap move
                  (job_shop._try_swap) is also handed planted valid schedules directly.
  option ladder   every documented keyword absent (default) / small / large, one at a time and in random combinations.
  long runs       thousands of iterations (adaptive weight updates every 100 iterations, cooling acceptance).
  histories       ONE jobs / customers / vehicles object edited in place between calls; every answer judged for the
                  input as it is at that call, compared with the same call on fresh equal objects and (last call) with a
                  fresh interpreter; earlier Results must stay untouched.  Operator walks keep EVERY state they have seen,
                  go back to older ones, repeat calls: after each call every kept state must still be what it was
                  (frame: an operator owns only the state it returns).  Inside solve_vrptw the monitor keeps the last
                  five states that crossed a top-level operator call for the same purpose.
  numerics        job-shop durations and collinear VRPTW instances made of dyadic numbers (granule down to 2^-40) on
                  which binary64 arithmetic cannot round (certified per instance in Fractions): tolerance 0.
Round 3, presentation diversity (same contracts; the small-scope random and the planted mid-size generators re-run with the
problem PRESENTED in another legal way, the oracle applied to the de-presented instance):
  record fields   Vehicle.id positional / reversed / permuted / all equal / partly duplicated / from 1 / plate numbers / negative /
                  huge (the route of the vehicle at list position v is routes[v]; the id is a label), one Vehicle object repeated
                  (`[Vehicle(0, cap)] * k`), capacity int / float / inf / int first and non-integral float later, max_duration
                  absent / 0 / finite; Customer.required_vehicles 1..4 (also above the fleet size), zero-width windows, tw_end
                  inf / 1e9, every number int / float / mixed
  record forms    Customer positional / by keyword with defaults left out / full tuple / short tuple / list row, mixed in one list
  containers      customers and vehicles as list / tuple, depot as tuple / list; the default fleet (vehicles = k) next to them
  frame clauses   the caller's customers / vehicles objects are unchanged after the call; the same call repeated on the same
                  objects gives the same Result; the first Result is untouched by the second call
  for solve_vrptw (monitor on every operator call inside the search) and for walks of the exported operators.
Per-call hang guard: CPU time (ITIMER_VIRTUAL), never wall clock.
"""
from __future__ import annotations

import itertools
import json
import os
import random
import signal
import subprocess
import sys
from math import inf

from vf.core import Ctx, canon, digest, use_repo
from oracles.jobshop_vrp import (close, jobshop_result_problems, jobshop_schedule_problems, num, unnum,
                                 vrp_arrivals, vrp_objective, vrp_ok_problems, vrp_structure_problems)
from oracles.jobshop_vrp_gen import (G20, G30, G40, JS_DURS, JS_KINDS, gen_jobshop, gen_vrp, jobshop_lower_bound,
                                     plant_schedule, vrp_exactness)

LEVEL = "exploration"

OPS = ["random_removal", "worst_removal", "related_removal", "route_removal", "sync_removal",
       "greedy_insertion", "regret_insertion", "sync_aware_insertion"]
RULES = ["spt", "lpt", "mwkr", "fifo", "random"]
CASE_TIMEOUT = 90  # CPU s (ITIMER_VIRTUAL), per case (a solver call that does not come back)
MAX_PER_OBLIGATION = 2


_PRIME_W = dict(distance_weight=1.5, vehicle_weight=7.0, tw_penalty=11.0, capacity_penalty=13.0, sync_penalty=17.0,
                unassigned_penalty=19.0)


class _Timeout(Exception):
    pass


def _alarm(_s, _f):
    raise _Timeout()


def _guarded(fn, limit=CASE_TIMEOUT):
    """fn() under a CPU-time budget (ITIMER_VIRTUAL; a loaded machine cannot make it fire).
    -> (value, None) | (None, "no result after ..") | (None, "raised ..")"""
    old = signal.signal(signal.SIGVTALRM, _alarm)
    signal.setitimer(signal.ITIMER_VIRTUAL, limit)
    try:
        try:
            return fn(), None
        finally:
            signal.setitimer(signal.ITIMER_VIRTUAL, 0)   # a signal landing here is still caught below
    except _Timeout:
        return None, f"no result after {limit}s of CPU time"
    except Exception as e:  # valid input: any exception means nothing came back
        return None, f"raised {type(e).__name__}: {e}"
    finally:
        signal.setitimer(signal.ITIMER_VIRTUAL, 0)
        signal.signal(signal.SIGVTALRM, old)


def _callback(case):
    """on_progress built from the case: asks to stop at iteration `stop_at`, otherwise answers `cb_ret`."""
    stop_at = case.get("stop_at")
    if "cb_ret" not in case:
        return lambda p: p.iteration >= stop_at
    ret = case["cb_ret"]
    if stop_at is None:
        return lambda p: ret
    return lambda p: True if p.iteration >= stop_at else ret


# =============================================================================================== job shop
class _JSMonitor:
    """Validates every schedule produced by the builders during one solve_job_shop call."""

    def __init__(self, mod, jobs):
        self.mod, self.jobs = mod, jobs
        self.orig = {}
        self.bad = []
        self.n = 0

    def _wrap(self, name):
        orig = self.orig[name]

        def w(*a, **k):
            out = orig(*a, **k)
            if out is not None:
                self.n += 1
                if len(self.bad) < 3:
                    for clause, det in jobshop_schedule_problems(self.jobs, out)[:2]:
                        self.bad.append((name, clause, det))
            return out
        return w

    def __enter__(self):
        for name in ("_dispatch", "_try_swap"):
            if hasattr(self.mod, name):
                self.orig[name] = getattr(self.mod, name)
                setattr(self.mod, name, self._wrap(name))
        return self

    def __exit__(self, *exc):
        for name, f in self.orig.items():
            setattr(self.mod, name, f)


def _js_kw(case):
    """Keyword arguments of one solve_job_shop call; a key that is absent from the case is left at its documented default."""
    kw = {k: case[k] for k in ("rule", "local_search", "max_iter", "seed") if k in case}
    if case.get("stop_at") is not None or "cb_ret" in case:
        kw["on_progress"] = _callback(case)
        kw["progress_interval"] = case.get("progress_interval", 1)
    elif "progress_interval" in case:
        kw["progress_interval"] = case["progress_interval"]
    return kw


def _js_fp(res):
    """Everything a caller can see of a job-shop Result, as plain data."""
    return {"objective": res.objective, "iterations": res.iterations, "evaluations": res.evaluations,
            "status": str(res.status), "schedule": sorted([j, k, s, e] for (j, k), (s, e) in res.solution.items())}


def _js_call(js, jobs, case, monitor=True):
    """-> (result | None, error | None, monitor)"""
    mon = _JSMonitor(js, [[(op[0], op[1]) for op in job] for job in jobs]) if monitor else None
    kw = _js_kw(case)

    def go():
        if mon is None:
            return js.solve_job_shop(jobs, **kw)
        with mon:
            return js.solve_job_shop(jobs, **kw)
    res, err = _guarded(go, case.get("cpu_limit", CASE_TIMEOUT))
    return res, err, mon


def _js_judge(jobs, res, mon, who="solve_job_shop"):
    out = []
    for clause, det in jobshop_result_problems(jobs, res.solution, res.objective)[:3]:
        out.append((f"C18/{who}/ensures:{clause}", det))
    if not out:
        lb = jobshop_lower_bound(jobs)
        if res.objective < lb:   # cannot happen for a schedule that passed the validity oracle: oracle self-check
            raise AssertionError(f"oracle inconsistency: valid schedule with makespan {res.objective} below the bound {lb}")
    if mon is not None:
        for name, clause, det in mon.bad:
            out.append((f"C18/job_shop.{name}/ensures:valid_schedule", f"{clause}: {det}"))
    return out


def run_jobshop_case(case):
    """-> (list of (obligation, detail), info)"""
    import solvor.job_shop as js
    jobs = [[(op[0], op[1]) for op in job] for job in case["jobs"]]
    res, err, mon = _js_call(js, jobs, case)
    if err:
        return [("C18/solve_job_shop/returns", err)], {"built": mon.n}
    out = _js_judge(jobs, res, mon)
    return out, {"built": mon.n, "objective": res.objective}


class _Collect:
    """Per-chunk violation collector: full counts, but only the first KEEP witnesses per obligation travel
    back to the parent (the chunks are in generation order, smallest cases first)."""
    KEEP = 3

    def __init__(self):
        self.viol, self.nviol, self.nfail = [], {}, 0

    def add(self, case, bad):
        if bad:
            self.nfail += 1
        for obl, det in bad:
            self.nviol[obl] = self.nviol.get(obl, 0) + 1
            if self.nviol[obl] <= self.KEEP:
                self.viol.append((obl, case, _short(det, 2500)))

    def out(self, **kw):
        kw.update(viol=self.viol, nviol=self.nviol, nfail=self.nfail)
        return kw


def w_jobshop(chunk):
    col, keys, built = _Collect(), [], 0
    for case in chunk:
        bad, info = run_jobshop_case(case)
        built += info.get("built", 0)
        if sum(len(j) for j in case["jobs"]) >= 2:
            keys.append(digest(case))
        col.add(case, bad)
    return col.out(n=len(chunk), keys=keys, built=built)


def _js_jobs_space(max_jobs, max_ops, machines, durations):
    ops = [(m, d) for m in machines for d in durations]
    one = []
    for k in range(1, max_ops + 1):
        one.extend(itertools.product(ops, repeat=k))
    for nj in range(1, max_jobs + 1):
        for jobs in itertools.product(one, repeat=nj):
            yield [[list(op) for op in job] for job in jobs]


def jobshop_cases(ctx, rng):
    """(scope descriptions, cases)"""
    cases = []
    scopes = []
    # --- exhaustive small scope
    if ctx.quick:
        mj, mo, machines, durs = 2, 2, (0, 1), (0, 1, 2)
        cfgs = [(False, 0, 0), (True, 0, 0), (True, 1, 0), (True, 6, 1)]
    else:
        mj, mo, machines, durs = 3, 2, (0, 1), (0, 1, 2)
        cfgs = [(False, 0, 0), (True, 0, 0), (True, 1, 0), (True, 6, 1), (True, 40, 2)]
    n0 = len(cases)
    for jobs in _js_jobs_space(mj, mo, machines, durs):
        if not ctx.quick and len(jobs) == 3 and sum(len(j) for j in jobs) == 6 and rng.random() < 0.85:
            continue  # thorough: 15% of the largest stratum (sampled, declared below)
        for rule in RULES:
            for ls, mi, seed in cfgs:
                if ls and mi == 0 and rule not in ("spt", "random"):
                    continue  # the zero-length local search does not depend on the rule beyond the first dispatch
                cases.append({"kind": "jobshop", "jobs": jobs, "rule": rule, "local_search": ls, "max_iter": mi, "seed": seed})
    scopes.append(dict(name="job shop exhaustive", jobs=f"1..{mj}", ops_per_job=f"1..{mo}", machines=list(machines),
                       durations=list(durs), rules=RULES, configs="(local_search,max_iter,seed) in " + repr(cfgs),
                       cases=len(cases) - n0,
                       exhaustive=bool(ctx.quick),
                       note="" if ctx.quick else "3-job/6-operation stratum sampled at 15%, everything smaller complete"))
    # --- 3 jobs x 3 ops on a tiny alphabet (repeated machines inside a job, zero durations)
    n0 = len(cases)
    ops = [(0, 0), (0, 2), (1, 1)]
    jobs3 = list(itertools.product(ops, repeat=3))
    trip = list(itertools.combinations_with_replacement(jobs3, 3))
    rng.shuffle(trip)
    for jobs in trip[: (250 if ctx.quick else 3000)]:
        jl = [[list(op) for op in job] for job in jobs]
        for rule in RULES:
            cases.append({"kind": "jobshop", "jobs": jl, "rule": rule, "local_search": True,
                          "max_iter": rng.choice([0, 5, 50]), "seed": rng.randrange(21)})
    scopes.append(dict(name="job shop 3x3 tiny alphabet", ops=ops, cases=len(cases) - n0, sampled_of=len(trip) * len(RULES)))
    # --- random: sparse / large machine indices, many ties and zeros, rule spelling, early stop
    n0 = len(cases)
    R = 1500 if ctx.quick else 20000
    for _ in range(R):
        nj = rng.choice([1, 2, 3, 3, 4, 5, 6])
        mset = rng.choice([[0, 1], [0, 1, 2], [0, 3, 7], [5], [2, 9], [0, 1, 2, 3, 4]])
        dset = rng.choice([[0, 1], [0, 0, 1, 2, 3], [1, 2, 3, 4, 5], [0], [2], [0, 1, 5, 9], [3, 3, 3, 7]])
        jobs = []
        for _j in range(nj):
            k = rng.choice([1, 2, 3, 3, 4, 5])
            job = []
            for _k in range(k):
                m = job[-1][0] if job and rng.random() < 0.25 else rng.choice(mset)
                job.append([m, rng.choice(dset)])
            jobs.append(job)
        rule = rng.choice(RULES)
        if rng.random() < 0.15:
            rule = rng.choice([rule.upper(), rule.capitalize()])
        c = {"kind": "jobshop", "jobs": jobs, "rule": rule, "local_search": rng.random() < 0.9,
             "max_iter": rng.choice([0, 1, 2, 5, 20, 50, 150, 400]), "seed": rng.choice([None, 0, 1, 2, 7, 20, rng.randrange(10 ** 6)])}
        if c["seed"] is None and (c["rule"].lower() == "random" or c["local_search"]):
            c["seed"] = rng.randrange(21)  # keep every case reproducible
        if rng.random() < 0.12:
            c["stop_at"] = rng.choice([1, 2, 5])
        cases.append(c)
    scopes.append(dict(name="job shop random", cases=len(cases) - n0, jobs="1..6", ops_per_job="1..5",
                       machine_sets="dense, sparse (0,3,7), single, offset (2,9)", durations="0..9 with many ties/zeros",
                       max_iter=[0, 1, 2, 5, 20, 50, 150, 400], early_stop="12% via on_progress"))
    return scopes, cases


# =============================================================================================== VRP
def _plain_customers(case):
    """Oracle-side customers: index 0 = depot."""
    dx, dy = case["depot"]
    out = [(0, dx, dy, 0.0, 0.0, inf, 0.0, 1)]
    for c in case["customers"]:
        out.append((c[0], c[1], c[2], c[3], c[4], unnum(c[5]), c[6], c[7]))
    return out


def _plain_vehicles(case):
    v = case["vehicles"]
    if isinstance(v, int):
        return [(i, unnum(case.get("vehicle_capacity"))) for i in range(v)]
    return [(x[0], unnum(x[1])) for x in v]


def _snap(state):
    return ([list(r) for r in state.routes], sorted(state.unassigned), [list(a) for a in state.arrival_times],
            {k: sorted(v) for k, v in state.sync_assignments.items()})


class _VRPMonitor:
    """Wraps every exported operator of the imported solvor.vrp module: each call's input and output state is
    checked against the oracle's vrp_ok, the input is compared with a snapshot taken before the call, and so are
    the last few states that went in or out of earlier top-level calls (the incumbent, the best state, the
    partial state: an operator working on its copy must not reach back into them)."""
    RING = 5

    def __init__(self, mod, customers, n_vehicles, limit=4, exact=False):
        self.mod, self.customers, self.nv, self.limit, self.exact = mod, customers, n_vehicles, limit, exact
        self.orig = {}
        self.calls = {op: 0 for op in OPS}
        self.skipped_pre = 0
        self.depth = 0
        self.bad = []       # (op, clause, detail)
        self.n_bad = {}
        self.seq = 0
        self.ring = []      # (state object, snapshot, "call #k out/in") of top-level calls
        self.longest_route = 0

    def _note(self, op, clause, det):
        k = (op, clause)
        self.n_bad[k] = self.n_bad.get(k, 0) + 1
        if self.n_bad[k] == 1 and len(self.bad) < self.limit:
            self.bad.append((op, clause, det))

    def _remember(self, state, snap, label):
        for i, (obj, _s, _l) in enumerate(self.ring):
            if obj is state:
                self.ring[i] = (state, snap, label)
                return
        self.ring.append((state, snap, label))
        del self.ring[:-self.RING]

    def check_ring(self, op, where, skip=None):
        for i, (obj, snap, label) in enumerate(self.ring):
            if obj is skip:
                continue
            now = _snap(obj)
            if now != snap:
                self._note(op, "frame:other-states-untouched",
                           f"{where}: the state {label} changed from routes={snap[0]} unassigned={snap[1]} arrivals={snap[2]} "
                           f"to routes={now[0]} unassigned={now[1]} arrivals={now[2]}")
                self.ring[i] = (obj, now, label)

    def _wrap(self, op):
        orig = self.orig[op]

        def w(state, rng, *a, **k):
            self.seq += 1
            idx = self.seq
            self.calls[op] += 1
            top = self.depth == 0
            before = _snap(state)
            pre = vrp_ok_problems(self.customers, self.nv, before[0], before[1], before[2], self.exact)
            self.depth += 1
            try:
                out = orig(state, rng, *a, **k)
            finally:
                self.depth -= 1
            after = _snap(state)
            where = f"call #{idx} {op}{a if a else ''}{k if k else ''}" + (" (nested)" if self.depth else "")
            if after != before:
                self._note(op, "frame:input-not-mutated", f"{where}: input state changed from routes={before[0]} unassigned={before[1]} "
                                                            f"arrivals={before[2]} to routes={after[0]} unassigned={after[1]} arrivals={after[2]}")
            if top:
                self.check_ring(op, where, skip=state)
                self._remember(state, after, f"passed to call #{idx} ({op})")
            o = _snap(out)
            if top and out is not state:
                self._remember(out, o, f"returned by call #{idx} ({op})")
            if pre:
                self.skipped_pre += 1
                return out
            self.longest_route = max([self.longest_route] + [len(r) for r in o[0]])
            for clause, det in vrp_ok_problems(self.customers, self.nv, o[0], o[1], o[2], self.exact):
                self._note(op, f"ensures:vrp_ok/{clause}",
                           f"{where}: input routes={before[0]} unassigned={before[1]} -> output routes={o[0]} unassigned={o[1]}: {det}")
            return out
        return w

    def __enter__(self):
        for op in OPS:
            self.orig[op] = getattr(self.mod, op)
            setattr(self.mod, op, self._wrap(op))
        return self

    def __exit__(self, *exc):
        for op, f in self.orig.items():
            setattr(self.mod, op, f)


def _presented_vehicles(vm, case):
    """Vehicle records of a presented case: [id, capacity] or [id, capacity, max_duration] rows; ids are whatever the
    case says (the route of the vehicle at list position v is routes[v]); with present.veh_alias equal records are ONE
    Vehicle object repeated (`[Vehicle(0, cap)] * 3`)."""
    p = case.get("present") or {}
    made, out = {}, []
    for x in case["vehicles"]:
        key = canon(x)
        if p.get("veh_alias") and key in made:
            out.append(made[key])
            continue
        obj = vm.Vehicle(x[0], unnum(x[1]), *([unnum(x[2])] if len(x) > 2 else []))
        made[key] = obj
        out.append(obj)
    return out


_CUST_DEFAULTS = (None, None, None, 0.0, 0.0, inf, 0.0, 1)
_CUST_FIELDS = ("id", "x", "y", "demand", "tw_start", "tw_end", "service_time", "required_vehicles")


def _build_presented(vm, case):
    """The problem of a presented case (round 3): per-customer record form (Customer positional / Customer by keyword with
    defaults left out / full tuple / short tuple / list row), container kinds, presented fleet."""
    p = case["present"]
    pc = _plain_customers(case)
    forms = p.get("cust_form") or ["obj"]
    customers = []
    for i, c in enumerate(pc[1:]):
        f = forms[i % len(forms)]
        if f == "obj":
            customers.append(vm.Customer(*c))
        elif f == "kw":
            kw = {k: v for k, v, d in zip(_CUST_FIELDS, c, _CUST_DEFAULTS) if d is None or v != d}
            customers.append(vm.Customer(**kw))
        elif f == "tuple":
            customers.append(tuple(c))
        elif f == "list":
            customers.append(list(c))
        elif f == "short":
            t = tuple(c)
            while len(t) > 3 and t[-1] == _CUST_DEFAULTS[len(t) - 1]:
                t = t[:-1]
            customers.append(t)
        else:
            raise ValueError(f"unknown customer form {f!r}")
    if p.get("cust_box") == "tuple":
        customers = tuple(customers)
    v = case["vehicles"]
    if isinstance(v, int):
        return customers, v
    vehicles = _presented_vehicles(vm, case)
    if p.get("veh_box") == "tuple":
        vehicles = tuple(vehicles)
    return customers, vehicles


def _build_problem(vm, case):
    if case.get("present"):
        return _build_presented(vm, case)
    pc = _plain_customers(case)
    if case.get("as_tuples"):
        customers = []
        for c in pc[1:]:
            t = tuple(c)
            # drop trailing fields that equal the documented defaults (short tuples are accepted)
            defaults = (None, None, None, 0.0, 0.0, inf, 0.0, 1)
            while len(t) > max(3, case.get("min_tuple", 3)) and t[-1] == defaults[len(t) - 1]:
                t = t[:-1]
            customers.append(t)
    else:
        customers = [vm.Customer(*c) for c in pc[1:]]
    v = case["vehicles"]
    vehicles = v if isinstance(v, int) else [vm.Vehicle(x[0], unnum(x[1])) for x in v]
    return customers, vehicles


def _vrp_kw(case):
    """Keyword arguments of one solve_vrptw call; keys absent from the case stay at their documented defaults."""
    kw = dict(case.get("weights") or {})
    if "depot" in case:
        kw["depot"] = list(case["depot"]) if (case.get("present") or {}).get("depot_box") == "list" else tuple(case["depot"])
    for k in ("max_iter", "max_no_improve", "seed"):
        if k in case:
            kw[k] = case[k]
    if case.get("vehicle_capacity") is not None and (isinstance(case.get("vehicles"), int) or case.get("capacity_with_list")):
        kw["vehicle_capacity"] = case["vehicle_capacity"]
    if case.get("stop_at") is not None or "cb_ret" in case:
        kw["on_progress"] = _callback(case)
        kw["progress_interval"] = case.get("progress_interval", 1)
    elif "progress_interval" in case:
        kw["progress_interval"] = case["progress_interval"]
    return kw


def _is_exact(case, pc, pv):
    """Float arithmetic is exact on this instance (then arrival times / penalty terms are compared bit for bit)."""
    if not case.get("try_exact"):
        return False
    return vrp_exactness(pc, pv)[0]


def _vrp_fp(res):
    st = res.solution
    r, u, a, sa = _snap(st)
    return {"objective": res.objective, "iterations": res.iterations, "evaluations": res.evaluations,
            "status": str(res.status), "routes": r, "unassigned": u, "arrivals": a, "sync": sa}


def _score_problems(vm, st, pc, pv, routes, un, weight_sets, exact, who):
    """The documented weighted sum of `st`, recomputed from its routes by the oracle, against vrp_objective(st, ..)
    for every weight set; and each term of the sum against the state's own accessor."""
    out = []
    same = (lambda g, e: g == e) if exact else close
    try:
        _t, parts = vrp_objective(pc, pv, routes, un)
        got = {"distance": st.total_distance(), "tw_violation": st.time_window_violation(),
               "capacity_violation": st.capacity_violation(), "sync_violation": st.sync_violation(),
               "vehicles_used": st.vehicles_used()}
        for k, g in got.items():
            if not same(g, parts[k]):
                out.append((f"C18/{who}/ensures:objective-terms",
                            f"{k} of the state is {g!r}, recomputed from routes={routes} unassigned={un}: {parts[k]!r}"
                            + (" (exact arithmetic instance: compared bit for bit)" if exact else "")))
                break
        for w in weight_sets:
            exp, parts = vrp_objective(pc, pv, routes, un, **w)
            g = vm.vrp_objective(st, **w)
            if not close(g, exp, rel=1e-12 if exact else 1e-9):
                out.append((f"C18/{who}/ensures:weighted-sum", f"vrp_objective({w}) = {g!r}, recomputed {exp!r} ({parts}) on routes={routes} unassigned={un}"))
                break
    except Exception as e:
        out.append((f"C18/{who}/returns", f"scoring raised {type(e).__name__}: {e}"))
    return out


def _judge_vrp_result(vm, res, pc, pv, w, exact=False):
    """-> (list of (obligation, detail), routes | None)"""
    out = []
    st = res.solution
    try:
        routes, un, arr, _ = _snap(st)
    except Exception as e:
        return [("C18/solve_vrptw/returns", f"solution is not a VRPState: {type(e).__name__}: {e}")], None
    probs = vrp_ok_problems(pc, len(pv), routes, un, arr, exact)
    seen = set()
    for clause, det in probs:
        if clause not in seen:
            seen.add(clause)
            out.append((f"C18/solve_vrptw/ensures:vrp_ok/{clause}", f"result routes={routes} unassigned={un}: {det}"
                        + (" (exact arithmetic instance: compared bit for bit)" if exact and clause == "arrival-times" else "")))
    if not any(c in ("twice-on-route", "unknown-id", "routes-shape") for c, _ in probs):
        exp, parts = vrp_objective(pc, pv, routes, un, **w)
        if not close(res.objective, exp, rel=1e-12 if exact else 1e-9):
            out.append(("C18/solve_vrptw/ensures:objective",
                        f"objective {res.objective!r} but weighted sum of routes={routes} unassigned={un} is {exp!r} ({parts})"))
        elif "arrival-times" not in seen:
            # the state that came back scores itself: same terms, same sum
            out += _score_problems(vm, st, pc, pv, routes, un, [w], exact, "solve_vrptw")
    return out, routes


def _vrp_call(vm, customers, vehicles, case, pc, pv, exact=False, monitor=True):
    """-> (result | None, list of (obligation, detail), monitor)"""
    kw = _vrp_kw(case)
    mon = _VRPMonitor(vm, pc, len(pv), exact=exact) if monitor else None

    def go():
        if mon is None:
            return vm.solve_vrptw(customers, vehicles, **kw)
        with mon:
            return vm.solve_vrptw(customers, vehicles, **kw)
    res, err = _guarded(go, case.get("cpu_limit", CASE_TIMEOUT))
    out = []
    if err:
        out.append(("C18/solve_vrptw/returns", err))
    if mon is not None:
        if res is not None:
            mon.check_ring("solve_vrptw", "after the search returned")
        for op, clause, det in mon.bad:
            out.append((f"C18/{op}/{clause}", det + f"  [{mon.n_bad[(op, clause)]} such call(s) in this run]"))
    return res, out, mon


def run_vrp_solve_case(case):
    """-> (list of (obligation, detail), info)"""
    import solvor.vrp as vm
    pc, pv = _plain_customers(case), _plain_vehicles(case)
    customers, vehicles = _build_problem(vm, case)
    exact = _is_exact(case, pc, pv)
    res, out, mon = _vrp_call(vm, customers, vehicles, case, pc, pv, exact)
    info = {"calls": mon.calls, "skipped": mon.skipped_pre, "longest_route": mon.longest_route, "exact": exact}
    if res is None:
        return out, info
    bad, routes = _judge_vrp_result(vm, res, pc, pv, case.get("weights") or {}, exact)
    out += bad
    if routes is not None:
        info["routes"] = routes
        info["longest_route"] = max([info["longest_route"]] + [len(r) for r in routes])
    return out, info


def w_vrp_solve(chunk):
    col, keys = _Collect(), []
    calls = {op: 0 for op in OPS}
    skipped = 0
    for case in chunk:
        bad, info = run_vrp_solve_case(case)
        for op, n in info["calls"].items():
            calls[op] += n
        skipped += info["skipped"]
        if len(case["customers"]) >= 2 and sum(info["calls"].values()) >= 2:
            keys.append(digest(case))
        col.add(case, bad)
    return col.out(n=len(chunk), keys=keys, calls=calls, skipped=skipped)


def _make_state(vm, case):
    pc, pv = _plain_customers(case), _plain_vehicles(case)
    custs = [vm.Customer(*c) for c in pc]
    vehs = _presented_vehicles(vm, case) if case.get("present") else [vm.Vehicle(i, cap) for i, cap in pv]
    st = vm.VRPState.from_problem(custs, vehs)
    st.routes = [list(r) for r in case["routes"]]
    st.unassigned = set(case["unassigned"])
    st.arrival_times = [vrp_arrivals(pc, r) for r in st.routes]
    sa = {}
    for v, r in enumerate(st.routes):
        for c in r:
            if pc[c][7] > 1:
                sa.setdefault(c, set()).add(v)
    st.sync_assignments = sa
    if not case.get("dist_cache", True):
        st._dist = None
    return st, pc, pv


def run_vrp_op_case(case):
    import solvor.vrp as vm
    st, pc, pv = _make_state(vm, case)
    before = _snap(st)
    pre = vrp_ok_problems(pc, len(pv), before[0], before[1], before[2])
    if pre:
        raise AssertionError(f"generator produced a state that is not vrp_ok: {pre}")
    op = case["op"]
    out = []
    try:
        res = getattr(vm, op)(st, random.Random(case["seed"]), **case.get("args", {}))
    except Exception as e:
        return [(f"C18/{op}/returns", f"raised {type(e).__name__}: {e}")], {"changed": False}
    after = _snap(st)
    if after != before:
        out.append((f"C18/{op}/frame:input-not-mutated", f"input changed from routes={before[0]} unassigned={before[1]} arrivals={before[2]} "
                                                         f"to routes={after[0]} unassigned={after[1]} arrivals={after[2]}"))
    o = _snap(res)
    seen = set()
    for clause, det in vrp_ok_problems(pc, len(pv), o[0], o[1], o[2]):
        if clause not in seen:
            seen.add(clause)
            out.append((f"C18/{op}/ensures:vrp_ok/{clause}", f"output routes={o[0]} unassigned={o[1]}: {det}"))
    # the documented objective of any operator output, recomputed
    if not any(c in ("twice-on-route", "unknown-id", "routes-shape") for c in seen):
        try:
            for w in ({}, _PRIME_W):  # defaults, and weights that make every term visible
                exp, parts = vrp_objective(pc, pv, o[0], o[1], **w)
                got = vm.vrp_objective(res, **w)
                if "arrival-times" not in seen and not close(got, exp):
                    out.append(("C18/vrp_objective/ensures:weighted-sum", f"vrp_objective({w}) = {got!r}, recomputed {exp!r} ({parts}) on routes={o[0]} unassigned={o[1]}"))
                    break
        except Exception as e:
            out.append(("C18/vrp_objective/returns", f"raised {type(e).__name__}: {e}"))
    return out, {"changed": (o[0], o[1]) != (before[0], before[1])}


def w_vrp_op(chunk):
    col, keys = _Collect(), []
    for case in chunk:
        bad, info = run_vrp_op_case(case)
        if info["changed"]:
            keys.append(digest(case))
        col.add(case, bad)
    return col.out(n=len(chunk), keys=keys)


# ----------------------------------------------------------------------------------------------- generators


def _rand_weights(rng):
    if rng.random() < 0.55:
        return {}
    w = {}
    if rng.random() < 0.6:
        w["distance_weight"] = rng.choice([0.0, 1.0, 2.5])
    if rng.random() < 0.5:
        w["vehicle_weight"] = rng.choice([0.0, 10.0, 1.5])
    if rng.random() < 0.5:
        w["tw_penalty"] = rng.choice([0.0, 7.0, 1000.0])
    if rng.random() < 0.5:
        w["capacity_penalty"] = rng.choice([0.0, 3.0, 1000.0])
    if rng.random() < 0.5:
        w["sync_penalty"] = rng.choice([0.0, 11.0, 10000.0])
    return w


def _rand_customers(rng, n, depot, p_multi):
    custs = []
    for i in range(1, n + 1):
        r = rng.random()
        if custs and r < 0.15:
            x, y = custs[rng.randrange(len(custs))][1:3]           # duplicate location
        elif r < 0.22:
            x, y = depot                                           # sits on the depot
        else:
            x, y = rng.randint(-3, 4), rng.randint(-3, 4)
        d = ((x - depot[0]) ** 2 + (y - depot[1]) ** 2) ** 0.5
        dem = rng.choice([0, 0, 1, 2, 3, 5])
        m = rng.random()
        if m < 0.40:
            tws, twe = 0.0, None
        elif m < 0.55:
            tws, twe = 0.0, float(rng.choice([6, 12, 20]))
        elif m < 0.72:
            tws = float(rng.randint(1, 8))
            twe = tws + rng.choice([0, 1, 3])
        elif m < 0.86:
            tws, twe = 0.0, (d * 0.5 if d > 0 else 0.0)            # cannot be reached in time from the depot
        else:
            tws, twe = 0.0, d                                      # reachable exactly at tw_end (tie)
        svc = rng.choice([0, 0, 1, 2])
        q = rng.random()
        req = 1 if q >= p_multi else (2 if q >= p_multi * 0.3 else 3)
        custs.append([i, x, y, dem, tws, twe, svc, req])
    return custs


def _rand_vehicles(rng, vmax):
    V = rng.choice([1, 2, 2, 3, 3][: 2 * vmax - 1])
    caps = [None, None, 2, 3, 5, 8]
    if rng.random() < 0.5:
        return V, rng.choice(caps)
    return [[i, rng.choice(caps)] for i in range(V)], None


def vrp_solve_cases(ctx, rng):
    cases, scopes = [], []
    # --- exhaustive small grid: 1..2 customers (smallest failing instances come from here)
    pos = [(1, 0), (0, 2)]
    dems = [1, 3]
    tws = [(0.0, None), (0.0, 0.5), (3.0, 4.0)]
    reqs = [1, 2]
    svcs = [1] if ctx.quick else [0, 1]
    grid = [(p, d, t, s, r) for p in pos for d in dems for t in tws for s in svcs for r in reqs]
    fleets = [(1, None), (2, None), (2, 3)] if ctx.quick else [(1, None), (2, None), (2, 3), (3, None), (3, 3)]
    seeds = [0] if ctx.quick else [0, 1]
    n0 = len(cases)
    for n in (1, 2):
        for combo in itertools.product(grid, repeat=n):
            custs = [[i + 1, p[0], p[1], d, t[0], t[1], s, r] for i, (p, d, t, s, r) in enumerate(combo)]
            for V, cap in fleets:
                for seed in seeds:
                    cases.append({"kind": "vrp_solve", "customers": custs, "vehicles": V, "vehicle_capacity": cap, "depot": [0, 0],
                                  "max_iter": 25, "max_no_improve": 25, "seed": seed})
    scopes.append(dict(name="solve_vrptw exhaustive grid", customers="1..2", positions=pos, demands=dems, windows=tws, service=svcs,
                       required_vehicles=reqs, fleets=fleets, seeds=seeds, max_iter=25, cases=len(cases) - n0, exhaustive=True))
    # --- random
    n0 = len(cases)
    R = 900 if ctx.quick else 9000
    for i in range(R):
        depot = rng.choice([[0, 0], [0, 0], [1, 1], [-2, 3]])
        n = rng.choice([1, 2, 3, 3, 4, 4, 5, 6] if ctx.quick else [1, 2, 3, 3, 4, 4, 5, 6, 7, 8])
        p_multi = rng.choice([0.0, 0.3, 0.5, 0.8])
        custs = _rand_customers(rng, n, depot, p_multi)
        veh, cap = _rand_vehicles(rng, 3)
        c = {"kind": "vrp_solve", "customers": custs, "vehicles": veh, "vehicle_capacity": cap, "depot": depot,
             "max_iter": rng.choice([0, 1, 3, 20, 60, 150] if ctx.quick else [0, 1, 3, 20, 60, 150, 600]),
             "max_no_improve": rng.choice([1, 5, 40, 500]), "seed": rng.randrange(10 ** 4)}
        w = _rand_weights(rng)
        if w:
            c["weights"] = w
        if rng.random() < 0.3:
            c["as_tuples"] = True
            c["min_tuple"] = rng.choice([3, 8])
        if rng.random() < 0.25:
            # early stop through on_progress: the returned state must still be the one the objective belongs to
            c["stop_at"] = rng.choice([1, 2, 5, 12, 30])
            c["max_iter"] = max(c["max_iter"], 60)
            c["max_no_improve"] = 500
        cases.append(c)
    scopes.append(dict(name="solve_vrptw random", cases=len(cases) - n0, customers="1..6" if ctx.quick else "1..8", vehicles="1..3 (int+capacity or Vehicle list, mixed capacities)",
                       features="duplicate locations, customers on the depot, zero demand, demand>capacity, unreachable / tie / late windows, "
                                "required_vehicles 1..3 (also > fleet), non-default weights incl. 0, tuples vs Customer, early stop, max_iter incl. 0"))
    return scopes, cases


def _enum_states(pc, V):
    """All vrp_ok states of an instance: each customer unassigned or on a non-empty set of routes (one route if
    single-vehicle); every order inside every route."""
    n = len(pc) - 1
    subsets = [s for k in range(1, V + 1) for s in itertools.combinations(range(V), k)]
    options = []
    for c in range(1, n + 1):
        opts = [None] + [s for s in subsets if len(s) == 1 or pc[c][7] > 1]
        options.append(opts)
    for place in itertools.product(*options):
        members = [[] for _ in range(V)]
        un = []
        for c, s in enumerate(place, start=1):
            if s is None:
                un.append(c)
            else:
                for v in s:
                    members[v].append(c)
        for perms in itertools.product(*[itertools.permutations(m) for m in members]):
            yield [list(p) for p in perms], un


def _op_variants(full):
    deg = [0.0, 0.2, 0.5, 1.0] if full else [0.2, 1.0]
    out = []
    for op in ("random_removal", "worst_removal", "related_removal"):
        out += [(op, {"degree": d}) for d in deg]
    out += [("route_removal", {"n_routes": k}) for k in ((0, 1, 2, 3) if full else (1, 2))]
    out += [("route_removal", {}), ("sync_removal", {}), ("greedy_insertion", {}), ("sync_aware_insertion", {})]
    out += [("regret_insertion", {"k": k}) for k in ((1, 2, 3) if full else (2, 3))]
    return out


def vrp_op_cases(ctx, rng):
    cases, scopes = [], []
    # --- exhaustive: all vrp_ok states of a few tiny instances x every operator x parameter variants x seeds
    insts = [
        # c1 single, c2 needs 2 vehicles; plenty of room
        dict(customers=[[1, 1, 0, 1, 0.0, None, 0, 1], [2, 0, 2, 1, 0.0, None, 1, 2]], vehicles=[[0, None], [1, None]]),
        # one multi-vehicle customer that only fits one vehicle (capacity) and one with an unreachable window
        dict(customers=[[1, 1, 0, 3, 0.0, None, 0, 2], [2, 0, 2, 1, 0.0, 0.5, 0, 2]], vehicles=[[0, 3], [1, 2]]),
        dict(customers=[[1, 1, 0, 1, 0.0, None, 0, 1], [2, 0, 2, 2, 2.0, 5.0, 1, 2], [3, 1, 0, 1, 0.0, None, 2, 3]],
             vehicles=[[0, None], [1, 4]]),
    ]
    if not ctx.quick:
        insts += [
            dict(customers=[[1, 1, 0, 1, 0.0, None, 0, 1], [2, 0, 2, 2, 2.0, 5.0, 1, 2], [3, 1, 0, 1, 0.0, None, 2, 3]],
                 vehicles=[[0, None], [1, 4], [2, 1]]),
            dict(customers=[[1, 0, 0, 0, 0.0, 0.0, 0, 1], [2, 0, 2, 2, 0.0, 2.0, 1, 1], [3, 0, 2, 5, 1.0, 1.0, 0, 2], [4, 3, 4, 1, 0.0, None, 1, 2]],
                 vehicles=[[0, 5], [1, None]]),
        ]
    seeds = [0, 1] if ctx.quick else [0, 1, 2, 3]
    variants = _op_variants(full=not ctx.quick)
    n0 = len(cases)
    nstates = 0
    for inst in insts:
        base = {"kind": "vrp_op", "customers": inst["customers"], "vehicles": inst["vehicles"], "depot": [0, 0]}
        pc = _plain_customers(base)
        for routes, un in _enum_states(pc, len(inst["vehicles"])):
            nstates += 1
            for op, args in variants:
                for seed in seeds:
                    c = dict(base)
                    c.update(routes=routes, unassigned=un, op=op, args=args, seed=seed)
                    cases.append(c)
    scopes.append(dict(name="operators on all vrp_ok states of tiny instances", instances=len(insts), states=nstates, variants=len(variants), seeds=seeds,
                       cases=len(cases) - n0, exhaustive=True))
    # --- random states of random instances
    n0 = len(cases)
    R = 2500 if ctx.quick else 60000
    variants = _op_variants(full=True)
    for _ in range(R):
        depot = rng.choice([[0, 0], [0, 0], [1, 1]])
        n = rng.choice([1, 2, 3, 4, 5, 6, 7])
        custs = _rand_customers(rng, n, depot, rng.choice([0.0, 0.4, 0.7]))
        V = rng.choice([1, 2, 3, 4])
        vehs = [[i, rng.choice([None, None, 2, 3, 5, 8])] for i in range(V)]
        routes = [[] for _ in range(V)]
        un = []
        for c in custs:
            r = rng.random()
            if r < 0.3:
                un.append(c[0])
                continue
            k = 1 if c[7] == 1 else rng.randint(1, V)
            for v in rng.sample(range(V), k):
                routes[v].insert(rng.randint(0, len(routes[v])), c[0])
        op, args = rng.choice(variants)
        cases.append({"kind": "vrp_op", "customers": custs, "vehicles": vehs, "depot": depot, "routes": routes, "unassigned": un,
                      "op": op, "args": args, "seed": rng.randrange(1000), "dist_cache": rng.random() < 0.8})
    scopes.append(dict(name="operators on random vrp_ok states", cases=len(cases) - n0, customers="1..7", vehicles="1..4",
                       features="multi-vehicle customers on 1..V routes, 30% unassigned, with/without cached distance matrix"))
    return scopes, cases


# =============================================================================================== round 2: runners
# Families beyond the small scope (size ladder with planted instances, option ladders, long runs, histories on reused
# objects, exact-arithmetic numerics).  Verdicts come from the same certifying oracle: every schedule / state that
# comes back is checked completely against the constraint semantics and its objective is recomputed - cheap at any size.
def _fresh(case):
    """The fingerprint of `case` computed by a NEW interpreter (no earlier call has touched the library's modules).
    -> (fingerprint | None, error | None).  No verdict depends on the wall-clock limit: expiry is reported as 'not compared'."""
    from vf.core import REPO, VERIF
    env = dict(os.environ)
    env["VERIF_REPO"] = REPO
    try:
        p = subprocess.run([sys.executable, "-m", "checks.C18", "--fresh"], input=json.dumps(case), capture_output=True,
                           text=True, cwd=VERIF, env=env, timeout=3600)
    except subprocess.TimeoutExpired:
        return None, "fresh process still running after 3600 s wall"
    if p.returncode != 0:
        return None, f"fresh process exit {p.returncode}: {p.stderr[-300:]}"
    return json.loads(p.stdout), None


def fresh_fingerprint(case):
    """What the fresh interpreter computes (also used by replay)."""
    k = case["kind"]
    if k == "jobshop":
        import solvor.job_shop as js
        jobs = [[(op[0], op[1]) for op in job] for job in case["jobs"]]
        res, err, _ = _js_call(js, jobs, case, monitor=False)
        return {"error": err} if err else _js_fp(res)
    if k == "vrp_solve":
        import solvor.vrp as vm
        pc, pv = _plain_customers(case), _plain_vehicles(case)
        customers, vehicles = _build_problem(vm, case)
        res, out, _ = _vrp_call(vm, customers, vehicles, case, pc, pv, monitor=False)
        return {"error": out[0][1]} if res is None else _vrp_fp(res)
    if k == "vrp_walk":
        return run_vrp_walk_case(case, fresh=False)[1]["final"]
    raise ValueError(k)


def _same(a, b):
    return json.loads(canon(a)) == json.loads(canon(b))


def _fp_diff(a, b):
    """First visible difference between two fingerprints (for the violation text)."""
    a, b = json.loads(canon(a)), json.loads(canon(b))
    for k in sorted(set(a) | set(b)):
        if a.get(k) != b.get(k):
            x, y = a.get(k), b.get(k)
            if isinstance(x, list) and isinstance(y, list):
                for i, (p, q) in enumerate(zip(x, y)):
                    if p != q:
                        return f"{k}[{i}]: {_short(p, 200)} vs {_short(q, 200)}"
                return f"{k}: {len(x)} vs {len(y)} entries"
            return f"{k}: {_short(x, 200)} vs {_short(y, 200)}"
    return "no difference"


def _short(x, n=600):
    s = x if isinstance(x, str) else canon(x)
    return s if len(s) <= n else s[:n] + f"...[{len(s)} chars]"


# ----------------------------------------------------------------------------------------------- job shop: swap move on a planted schedule
def run_js_swap_case(case):
    """job_shop._try_swap handed a PLANTED valid schedule (valid by construction, not produced by the dispatcher:
    random order, idle gaps) and adjacent pairs of one machine: whatever comes back must be a valid schedule of
    the same jobs, and the schedule that was handed in must not change."""
    import solvor.job_shop as js
    if not hasattr(js, "_try_swap"):
        return [], {"evals": 0, "skipped": 1}
    jobs = [[(op[0], op[1]) for op in job] for job in case["jobs"]]
    sched = {(j, k): (s, e) for j, k, s, e in case["schedule"]}
    pre = jobshop_schedule_problems(jobs, sched)
    if pre:
        raise AssertionError(f"generator produced an invalid planted schedule: {pre[:2]}")
    out, n, changed = [], 0, 0
    for j1, o1, j2, o2 in case["pairs"]:
        snap = dict(sched)
        new, err = _guarded(lambda: js._try_swap(jobs, sched, j1, o1, j2, o2), case.get("cpu_limit", CASE_TIMEOUT))
        n += 1
        if err:
            out.append(("C18/job_shop._try_swap/returns", f"pair ({j1},{o1})<->({j2},{o2}): {err}"))
            continue
        if sched != snap:
            out.append(("C18/job_shop._try_swap/frame:input-not-mutated", f"pair ({j1},{o1})<->({j2},{o2}): the schedule handed in was edited"))
            sched = snap
        if new is None:
            continue
        for clause, det in jobshop_schedule_problems(jobs, new)[:1]:
            out.append(("C18/job_shop._try_swap/ensures:valid_schedule",
                        f"swap of ({j1},{o1})={snap[(j1, o1)]} and ({j2},{o2})={snap[(j2, o2)]} on a planted valid schedule: {clause}: {det}"))
        if new != snap:
            changed += 1
    return out, {"evals": n, "nontrivial": changed > 0}


# ----------------------------------------------------------------------------------------------- job shop: history on one jobs object
def _apply_js_edit(jobs, e):
    """In-place edit of the SAME jobs object (list of lists of (machine, duration) tuples)."""
    if not e:
        return
    k = e[0]
    if k == "set":
        jobs[e[1]][e[2]] = (e[3], e[4])
    elif k == "append_op":
        jobs[e[1]].append((e[2], e[3]))
    elif k == "insert_op":
        jobs[e[1]].insert(e[2], (e[3], e[4]))
    elif k == "pop_op":
        jobs[e[1]].pop()
    elif k == "add_job":
        jobs.append([(m, d) for m, d in e[1]])
    elif k == "del_job":
        del jobs[e[1]]
    elif k == "reverse":
        jobs.reverse()
    elif k == "swap_jobs":
        jobs[e[1]], jobs[e[2]] = jobs[e[2]], jobs[e[1]]
    elif k == "relabel":
        mp = {a: b for a, b in e[1]}
        for job in jobs:
            for i, (m, d) in enumerate(job):
                job[i] = (mp.get(m, m), d)
    elif k == "scale":
        for job in jobs:
            for i, (m, d) in enumerate(job):
                job[i] = (m, d * e[1])
    else:
        raise ValueError(f"unknown edit {e!r}")


def run_js_history_case(case, fresh=True):
    import solvor.job_shop as js
    jobs = [[(op[0], op[1]) for op in job] for job in case["jobs"]]     # THE object every call of the history receives
    out, results, evals = [], [], 0
    last = None
    for si, step in enumerate(case["steps"]):
        _apply_js_edit(jobs, step.get("edit"))
        plain = [[[m, d] for m, d in job] for job in jobs]
        pj = [[(m, d) for m, d in job] for job in plain]
        call = step["call"]
        tag = f"call {si} of the history (edit before it: {step.get('edit')}; {sum(len(j) for j in plain)} operations now)"
        res, err, mon = _js_call(js, jobs, call)
        evals += 1
        last = None
        if [[[m, d] for m, d in job] for job in jobs] != plain:
            out.append(("C18/solve_job_shop/frame:input-not-mutated", f"{tag}: the jobs argument was edited by the call"))
            jobs[:] = [[(m, d) for m, d in job] for job in plain]
        if err:
            out.append(("C18/solve_job_shop/returns", f"{tag}: {err}"))
            continue
        for obl, det in _js_judge(pj, res, mon):
            out.append((obl, f"{tag}: {det}"))
        fp = _js_fp(res)
        # the same call on freshly built, equal objects
        res2, err2, _ = _js_call(js, [[(m, d) for m, d in job] for job in plain], call, monitor=False)
        evals += 1
        if err2:
            out.append(("C18/solve_job_shop/returns", f"{tag}, repeated on fresh equal objects: {err2}"))
        elif not _same(_js_fp(res2), fp):
            out.append(("C18/solve_job_shop/history:same-as-fresh-objects",
                        f"{tag}: the Result on the reused object differs from the Result on fresh equal objects with the same seed "
                        f"(reused vs fresh) in {_fp_diff(fp, _js_fp(res2))}"))
        for k, (r, f) in enumerate(results):
            now = _js_fp(r)
            if not _same(now, f):
                out.append(("C18/solve_job_shop/frame:earlier-results-untouched", f"{tag}: the Result returned by call {k} has changed since"))
                results[k] = (r, now)
        results.append((res, fp))
        last = (plain, call, fp)
    info = {"evals": evals, "nontrivial": len(case["steps"]) >= 2 and sum(len(j) for j in case["jobs"]) >= 2, "fresh": 0}
    if fresh and last is not None:
        plain, call, fp = last
        fc = dict(call)
        fc.update(kind="jobshop", jobs=plain)
        got, ferr = _fresh(fc)
        if ferr:
            info["fresh_failed"] = ferr
        else:
            info["fresh"] = 1
            if not _same(got, fp):
                out.append(("C18/solve_job_shop/history:same-as-fresh-process",
                            f"last call of the history: the Result here differs from the Result of the same call in a fresh interpreter "
                            f"(same jobs, same seed; here vs fresh) in {_fp_diff(fp, got)}"))
    return out, info


# ----------------------------------------------------------------------------------------------- VRP: history on one customers / vehicles object
def _row(fields):
    r = list(fields)
    r[5] = unnum(r[5])
    return r


def _apply_vrp_edit(vm, customers, vehicles, model, e, form):
    """In-place edit of the SAME customers / vehicles list objects, mirrored on the JSON model."""
    if not e:
        return
    k = e[0]
    if k == "set_cust":
        idx, fields = e[1], e[2]
        model["customers"][idx] = list(fields)
        if form == "rows":
            customers[idx][:] = _row(fields)          # the row object itself is edited
        else:
            customers[idx] = vm.Customer(*_row(fields))
    elif k == "add_cust":
        model["customers"].append(list(e[1]))
        customers.append(_row(e[1]) if form == "rows" else vm.Customer(*_row(e[1])))
    elif k == "pop_cust":
        model["customers"].pop()
        customers.pop()
    elif k == "set_veh":
        model["vehicles"][e[1]] = [e[1], e[2]]
        vehicles[e[1]] = vm.Vehicle(e[1], unnum(e[2]))
    elif k == "add_veh":
        i = len(vehicles)
        model["vehicles"].append([i, e[1]])
        vehicles.append(vm.Vehicle(i, unnum(e[1])))
    elif k == "pop_veh":
        model["vehicles"].pop()
        vehicles.pop()
    else:
        raise ValueError(f"unknown edit {e!r}")


def _read_live(customers, vehicles):
    cs = []
    for c in customers:
        if isinstance(c, (list, tuple)):
            cs.append(list(c))
        else:
            cs.append([c.id, c.x, c.y, c.demand, c.tw_start, c.tw_end, c.service_time, c.required_vehicles])
    return cs, [[v.id, v.capacity] for v in vehicles]


def run_vrp_history_case(case, fresh=True):
    import solvor.vrp as vm
    form = case.get("form", "Customer")
    model = {"customers": [list(c) for c in case["customers"]], "vehicles": [list(v) for v in case["vehicles"]]}
    customers = [_row(c) if form == "rows" else vm.Customer(*_row(c)) for c in model["customers"]]   # reused objects
    vehicles = [vm.Vehicle(v[0], unnum(v[1])) for v in model["vehicles"]]
    out, results, evals, ops = [], [], 0, 0
    last = None
    for si, step in enumerate(case["steps"]):
        _apply_vrp_edit(vm, customers, vehicles, model, step.get("edit"), form)
        call = dict(step["call"])
        call["depot"] = case["depot"]
        cc = dict(call)
        cc.update(customers=[list(c) for c in model["customers"]], vehicles=[list(v) for v in model["vehicles"]])
        pc, pv = _plain_customers(cc), _plain_vehicles(cc)
        exact = _is_exact(case, pc, pv)
        tag = f"call {si} of the history (edit before it: {step.get('edit')}; {len(pc) - 1} customers, {len(pv)} vehicles now)"
        live = _read_live(customers, vehicles)
        res, bad, mon = _vrp_call(vm, customers, vehicles, call, pc, pv, exact)
        evals += 1
        ops += sum(mon.calls.values())
        last = None
        if _read_live(customers, vehicles) != live:
            out.append(("C18/solve_vrptw/frame:input-not-mutated", f"{tag}: the customers / vehicles arguments were edited by the call"))
        out += [(o, f"{tag}: {d}") for o, d in bad]
        if res is None:
            continue
        jb, _routes = _judge_vrp_result(vm, res, pc, pv, call.get("weights") or {}, exact)
        out += [(o, f"{tag}: {d}") for o, d in jb]
        fp = _vrp_fp(res)
        c2, v2 = _build_problem(vm, cc)
        res2, bad2, _ = _vrp_call(vm, c2, v2, call, pc, pv, exact, monitor=False)
        evals += 1
        if res2 is None:
            out += [(o, f"{tag}, repeated on fresh equal objects: {d}") for o, d in bad2]
        elif not _same(_vrp_fp(res2), fp):
            out.append(("C18/solve_vrptw/history:same-as-fresh-objects",
                        f"{tag}: the Result on the reused objects differs from the Result on fresh equal objects with the same seed "
                        f"(reused vs fresh) in {_fp_diff(fp, _vrp_fp(res2))}"))
        for k, (r, f) in enumerate(results):
            now = _vrp_fp(r)
            if not _same(now, f):
                out.append(("C18/solve_vrptw/frame:earlier-results-untouched", f"{tag}: the Result returned by call {k} has changed since "
                                                                               f"(routes {f['routes']} arrivals {f['arrivals']} -> routes {now['routes']} arrivals {now['arrivals']})"))
                results[k] = (r, now)
        results.append((res, fp))
        last = (cc, fp)
    info = {"evals": evals, "nontrivial": len(case["steps"]) >= 2 and ops >= 2, "fresh": 0}
    if fresh and last is not None:
        cc, fp = last
        fc = dict(cc)
        fc["kind"] = "vrp_solve"
        got, ferr = _fresh(fc)
        if ferr:
            info["fresh_failed"] = ferr
        else:
            info["fresh"] = 1
            if not _same(got, fp):
                out.append(("C18/solve_vrptw/history:same-as-fresh-process",
                            f"last call of the history: the Result here differs from the Result of the same call in a fresh interpreter "
                            f"(same customers, same seed; here vs fresh) in {_fp_diff(fp, got)}"))
    return out, info


# ----------------------------------------------------------------------------------------------- VRP: operator walk that keeps every state
def run_vrp_walk_case(case, fresh=True):
    """A sequence of exported operators, each applied to a state produced earlier in the walk (usually the latest,
    sometimes an older one again - the way the adaptive search keeps its incumbent and best state).  After every
    call: the output is vrp_ok and honestly scored; EVERY state seen so far is still what it was."""
    import solvor.vrp as vm
    st0, pc, pv = _make_state(vm, case)
    exact = _is_exact(case, pc, pv)
    s0 = _snap(st0)
    pre = vrp_ok_problems(pc, len(pv), s0[0], s0[1], s0[2], exact)
    if pre:
        raise AssertionError(f"generator produced a state that is not vrp_ok: {pre[:2]}")
    out = list(_score_problems(vm, st0, pc, pv, s0[0], s0[1], [{}, _PRIME_W], exact, "vrp_objective"))
    records = ([(id(c), repr(c)) for c in st0.customers], [(id(v), repr(v)) for v in st0.vehicles])   # the caller's record lists
    states, snaps, ok = [st0], [s0], [True]
    evals, changed, longest = 0, 0, max([0] + [len(r) for r in s0[0]])
    for si, step in enumerate(case["steps"]):
        op, args, src = step["op"], step.get("args", {}), step.get("on", -1)
        if src >= len(states):
            src = -1
        inp = states[src]
        tag = f"step {si}: {op}({args}, seed {step['seed']}) on state #{src if src >= 0 else len(states) - 1} of the walk (#0 = start)"
        res, err = _guarded(lambda: getattr(vm, op)(inp, random.Random(step["seed"]), **args), case.get("cpu_limit", CASE_TIMEOUT))
        evals += 1
        if err:
            out.append((f"C18/{op}/returns", f"{tag}: {err}"))
            continue
        # every state seen so far must be untouched (the input included)
        for i, st in enumerate(states):
            now = _snap(st)
            if now != snaps[i]:
                which = "frame:input-not-mutated" if st is inp else "frame:other-states-untouched"
                out.append((f"C18/{op}/{which}", f"{tag}: state #{i} changed from routes={snaps[i][0]} "
                                                 f"unassigned={snaps[i][1]} arrivals={snaps[i][2]} to routes={now[0]} unassigned={now[1]} arrivals={now[2]}"))
                snaps[i] = now
                ok[i] = not vrp_ok_problems(pc, len(pv), now[0], now[1], now[2], exact)
        o = _snap(res)
        good = True
        if ok[src]:
            seen = set()
            for clause, det in vrp_ok_problems(pc, len(pv), o[0], o[1], o[2], exact):
                good = False
                if clause not in seen:
                    seen.add(clause)
                    out.append((f"C18/{op}/ensures:vrp_ok/{clause}", f"{tag}: output routes={o[0]} unassigned={o[1]}: {det}"))
            if good:
                out += [(ob, f"{tag}: {d}") for ob, d in _score_problems(vm, res, pc, pv, o[0], o[1], [{}, _PRIME_W][si % 2:si % 2 + 1], exact, "vrp_objective")]
            if step.get("repeat"):
                res2, err2 = _guarded(lambda: getattr(vm, op)(inp, random.Random(step["seed"]), **args), case.get("cpu_limit", CASE_TIMEOUT))
                evals += 1
                if err2:
                    out.append((f"C18/{op}/returns", f"{tag}, repeated: {err2}"))
                elif _snap(res2) != o:
                    out.append((f"C18/{op}/history:same-call-same-answer", f"{tag}: first answer routes={o[0]} unassigned={o[1]}, "
                                                                           f"second answer on the same state with the same seed routes={_snap(res2)[0]} unassigned={_snap(res2)[1]}"))
        else:
            good = not vrp_ok_problems(pc, len(pv), o[0], o[1], o[2], exact)
        if (o[0], o[1]) != (snaps[src][0], snaps[src][1]):
            changed += 1
        longest = max([longest] + [len(r) for r in o[0]])
        if res is not inp:
            states.append(res)
            snaps.append(o)
            ok.append(good)
    if ([(id(c), repr(c)) for c in st0.customers], [(id(v), repr(v)) for v in st0.vehicles]) != records:
        out.append(("C18/vrp_operators/frame:input-not-mutated", "the customers / vehicles lists handed to VRPState.from_problem were edited during the walk"))
    final = {"routes": snaps[-1][0], "unassigned": snaps[-1][1], "arrivals": snaps[-1][2], "sync": snaps[-1][3]}
    info = {"evals": evals, "nontrivial": changed >= 2, "final": final, "longest_route": longest, "exact": exact, "fresh": 0}
    if fresh and case.get("fresh"):
        got, ferr = _fresh(case)
        if ferr:
            info["fresh_failed"] = ferr
        else:
            info["fresh"] = 1
            if not _same(got, final):
                out.append(("C18/vrp_operators/history:same-as-fresh-process",
                            f"the final state of the walk here differs from the same walk in a fresh interpreter (here vs fresh) in {_fp_diff(final, got)}"))
    return out, info


def w_round2(chunk):
    col, keys = _Collect(), []
    n = 0
    stats = {"fresh": 0, "fresh_failed": 0, "skipped": 0, "longest_route": 0, "exact": 0, "built": 0, "ops": 0}
    for case in chunk:
        bad, info = run_case_info(case)
        n += info.get("evals", 1)
        if info.get("nontrivial", True):
            keys.append(digest(case))
        stats["fresh"] += info.get("fresh", 0)
        stats["fresh_failed"] += 1 if info.get("fresh_failed") else 0
        stats["skipped"] += info.get("skipped", 0)
        stats["exact"] += 1 if info.get("exact") else 0
        stats["built"] += info.get("built", 0)
        stats["ops"] += sum(info.get("calls", {}).values()) if isinstance(info.get("calls"), dict) else 0
        stats["longest_route"] = max(stats["longest_route"], info.get("longest_route", 0))
        col.add(case, bad)
    return col.out(n=n, keys=keys, stats=stats, family=chunk[0].get("family", "?") if chunk else "?")


# =============================================================================================== round 2: generators
def _js_cost(jobs):
    """Rough CPU seconds of one swap evaluation (a full greedy rebuild; fitted on the unchanged tree) and the
    largest number of operations on one machine (an iteration tries up to that many swaps)."""
    ops = sum(len(j) for j in jobs)
    per_m = {}
    for job in jobs:
        for m, _d in job:
            per_m[m] = per_m.get(m, 0) + 1
    return 1.6e-6 * ops ** 1.56 + 1e-5, max(per_m.values()), ops


def _swap_pairs(jobs, sched, rng, limit):
    by_m = {}
    for (j, k), (s, _e) in sched.items():
        by_m.setdefault(jobs[j][k][0], []).append((s, j, k))
    pairs = []
    for m, lst in by_m.items():
        lst.sort()
        for a, b in zip(lst, lst[1:]):
            pairs.append([a[1], a[2], b[1], b[2]])
    rng.shuffle(pairs)
    return pairs[:limit]


def _sched_json(sched):
    return sorted([j, k, s, e] for (j, k), (s, e) in sched.items())


JS_LADDER_QUICK = [(7, 5), (8, 8), (9, 7), (11, 6), (10, 5), (12, 10), (16, 8), (13, 10), (11, 12), (15, 9), (20, 10), (26, 10), (33, 8), (30, 15), (35, 15),
                   (40, 15), (52, 20), (60, 30)]
JS_LADDER_MORE = [(50, 20), (10, 10), (15, 10), (20, 5), (50, 5), (20, 15), (30, 10), (40, 10), (60, 5), (60, 10), (65, 16), (33, 33),
                  (43, 3), (64, 2), (65, 2), (129, 1), (22, 6), (60, 20), (55, 25)]


def js_ladder_cases(ctx, rng):
    """Size ladder: planted job shops from 50 to 1800 operations (around 128 / 256 / 512 / 1024 operations), every kind of
    structure and duration, every rule; local-search length chosen from a cost model so that a case needs about
    `budget` CPU seconds on the unchanged tree."""
    cases = []
    sizes = JS_LADDER_QUICK if ctx.quick else JS_LADDER_QUICK + JS_LADDER_MORE
    budget = 0.5 if ctx.quick else 1.5
    reps = 1 if ctx.quick else 2
    idx = 0
    for rep in range(reps):
        for nj, nm in sizes:
            kinds = ["classic", JS_KINDS[1 + idx % (len(JS_KINDS) - 1)]] if ctx.quick else \
                (["classic", JS_KINDS[1 + idx % 5], JS_KINDS[1 + (idx + 2) % 5]] if rep == 0 else [JS_KINDS[1 + (idx + 1) % 5]])
            for kind in kinds:
                dur = JS_DURS[idx % len(JS_DURS)]
                idx += 1
                jobs = gen_jobshop(rng, nj, nm, kind, dur)
                c, per_m, ops = _js_cost(jobs)
                big = ops > 300
                nrules = (1 if big else 3) if ctx.quick else (2 if ops > 1000 else 5)
                rules = [RULES[(idx + r) % 5] for r in range(nrules)]
                if ctx.quick and ops > 1100:
                    rules = []      # quick: above 1100 operations only the dispatcher and the swap move are run (one iteration can cost a minute)
                for rule in rules:
                    mi = max(1, min(60, int(budget / (c * per_m))))
                    cases.append({"kind": "jobshop", "family": "js_ladder", "jobs": jobs, "rule": rule, "local_search": True,
                                  "max_iter": mi, "seed": rng.randrange(1000), "cpu_limit": 1800})
                cases.append({"kind": "jobshop", "family": "js_ladder", "jobs": jobs, "rule": RULES[idx % 5], "local_search": False,
                              "max_iter": 0, "seed": rng.randrange(1000)})
                # the swap move on a planted schedule (valid by construction, with idle gaps)
                gaps = (0, 0, 1, 5) if dur != "dyadic" else (0.0, 0.0, 1.0, 0.5)
                sched = plant_schedule([[(m, d) for m, d in job] for job in jobs], rng, gaps)
                npairs = max(2, min(24, int(2 * budget / c)))
                cases.append({"kind": "js_swap", "family": "js_ladder", "jobs": jobs, "schedule": _sched_json(sched),
                              "pairs": _swap_pairs(jobs, sched, rng, npairs), "cpu_limit": 1800})
    scope = dict(name="job shop size ladder (planted)", sizes_jobs_x_machines=[list(s) for s in sizes], operations="50..1800",
                 kinds=JS_KINDS, durations=JS_DURS, cases=len(cases),
                 oracle="complete validity check of every schedule (returned, and built inside the search) + makespan recomputed; "
                        "swap move probed directly on planted valid schedules",
                 local_search="max_iter from a cost model (about %.1f CPU s per case)" % budget)
    return [scope], cases


def _js_base_instances(rng):
    return [gen_jobshop(rng, 6, 4, "classic", "int"), gen_jobshop(rng, 8, 5, "repeat", "zeros"),
            gen_jobshop(rng, 13, 10, "classic", "int"), gen_jobshop(rng, 9, 15, "partial", "ties")]


def js_option_cases(ctx, rng):
    """Every documented keyword at its default (key absent), small and large values, one at a time and in random combinations."""
    cases = []
    bases = _js_base_instances(rng)
    ladders = {
        "rule": [None] + RULES + ["SPT", "Lpt", "MWKR", "Fifo", "RANDOM"],
        "local_search": [None, False, True],
        "max_iter": [None, 0, 1, 3, 100, 5000],
        "seed": [0, 1, 2 ** 31 - 1, 2 ** 63, 123456789012345678901234567890],
        "progress": [None, (0, None, None), (1, None, None), (1, False, 5), (7, 0, None), (10 ** 6, None, 1), (1, None, 1), (3, False, 3)],
    }

    def mk(jobs, cfg):
        c = {"kind": "jobshop", "family": "js_options", "jobs": jobs, "seed": 5, "cpu_limit": 900}
        for k in ("rule", "local_search", "max_iter", "seed"):
            if cfg.get(k) is not None:
                c[k] = cfg[k]
        p = cfg.get("progress")
        if p is not None:
            c["progress_interval"] = p[0]
            c["cb_ret"] = p[1]
            if p[2] is not None:
                c["stop_at"] = p[2]
        return c
    for bi, jobs in enumerate(bases):
        for key, vals in ladders.items():
            for v in vals:
                if ctx.quick and bi >= 2 and key == "seed":
                    continue
                if ctx.quick and bi == 3 and key == "max_iter" and v in (None, 5000):
                    continue
                cfg = {key: v}
                if key != "max_iter":
                    cfg["max_iter"] = 40 if bi < 2 else 6       # the default (1000) is exercised by the max_iter ladder itself
                cases.append(mk(jobs, cfg))
    R = 60 if ctx.quick else 700
    for _ in range(R):
        bi = rng.randrange(len(bases))
        cfg = {k: rng.choice(v) for k, v in ladders.items()}
        if bi >= 2 and rng.random() < (0.85 if ctx.quick else 0.5):
            cfg["max_iter"] = rng.choice([1, 3, 20])
        cases.append(mk(bases[bi], cfg))
    scope = dict(name="job shop option ladder", instances="6x4, 8x5 (repeated machines, zero durations), 13x10 (130 operations), 9 jobs on 15 machines",
                 keywords={k: [repr(x) for x in v] for k, v in ladders.items()}, one_at_a_time=True, random_combinations=R, cases=len(cases))
    return [scope], cases


def js_long_cases(ctx, rng):
    cases = []
    sizes = [(10, 5), (8, 8), (15, 5)] if ctx.quick else [(10, 5), (8, 8), (15, 5), (6, 6), (12, 6), (20, 5), (10, 10), (5, 20), (13, 10)]
    for nj, nm in sizes:
        for rep in range(1 if ctx.quick else 4):
            jobs = gen_jobshop(rng, nj, nm, rng.choice(JS_KINDS), rng.choice(JS_DURS))
            cases.append({"kind": "jobshop", "family": "js_long", "jobs": jobs, "rule": RULES[(nj + rep) % 5], "local_search": True,
                          "max_iter": rng.choice([2000, 3000, 5000]), "seed": rng.randrange(1000), "cpu_limit": 1800})
    scope = dict(name="job shop long runs", sizes=[list(s) for s in sizes], max_iter=[2000, 3000, 5000], cases=len(cases),
                 note="the search ends itself after 100 iterations without improvement; every schedule built on the way is validated")
    return [scope], cases


def js_numeric_cases(ctx, rng):
    """Float durations that are exact in binary64 (multiples of 2^-40 .. 2^-38): the clauses end - start == duration and
    'no shared stretch of positive length' are decided exactly; gaps and overlaps of 2^-40 are visible."""
    cases = []
    sizes = [(2, 2), (3, 3), (4, 3), (6, 4), (10, 5)] + ([(13, 10)] if ctx.quick else [(13, 10), (20, 10), (16, 8), (30, 15)])
    R = 8 if ctx.quick else 60
    for nj, nm in sizes:
        for rep in range(R if nj <= 10 else (1 if ctx.quick else 6)):
            kind = JS_KINDS[rep % len(JS_KINDS)]
            jobs = gen_jobshop(rng, nj, nm, kind, "dyadic")
            c, per_m, ops = _js_cost(jobs)
            cases.append({"kind": "jobshop", "family": "js_numeric", "jobs": jobs, "rule": RULES[rep % 5], "local_search": True,
                          "max_iter": max(1, min(80, int(0.3 / (c * per_m)))), "seed": rng.randrange(1000)})
            sched = plant_schedule([[(m, d) for m, d in job] for job in jobs], rng, (0.0, 0.0, G40 * 4, 0.5, 1.0))
            cases.append({"kind": "js_swap", "family": "js_numeric", "jobs": jobs, "schedule": _sched_json(sched),
                          "pairs": _swap_pairs(jobs, sched, rng, 6)})
    scope = dict(name="job shop fine-grained durations", sizes=[list(s) for s in sizes],
                 durations="1, 1 +- 2^-40, 0.5, 2^-40, 2, 2 + 3*2^-40, 0, 3 - 2^-40, 4 (granule 2^-38 on the largest sizes): every clock value is a binary64 value",
                 cases=len(cases))
    return [scope], cases


def _js_history(rng, jobs, steps, call_fn):
    """Random valid edit script, simulated on a copy so that every edit applies."""
    sim = [[(m, d) for m, d in job] for job in jobs]
    machines = sorted({m for job in sim for m, _d in job})
    out = []
    for si in range(steps):
        e = None
        if si:
            r = rng.random()
            j = rng.randrange(len(sim))
            if r < 0.15:
                e = None                                   # the same call again
            elif r < 0.30:
                e = ["append_op", j, rng.choice(machines), rng.choice([0, 1, 3, 7])]
            elif r < 0.42:
                k = rng.randrange(len(sim[j]))
                e = ["set", j, k, rng.choice(machines), rng.choice([0, 2, 5, 11])]
            elif r < 0.50 and len(sim[j]) > 1:
                e = ["pop_op", j]
            elif r < 0.60:
                e = ["add_job", [[rng.choice(machines), rng.choice([1, 2, 4])] for _ in range(rng.randint(1, 4))]]
            elif r < 0.68 and len(sim) > 1:
                e = ["del_job", j]
            elif r < 0.76:
                e = ["reverse"]
            elif r < 0.84 and len(sim) > 1:
                e = ["swap_jobs", j, rng.randrange(len(sim))]
            elif r < 0.92:
                perm = machines[:]
                rng.shuffle(perm)
                e = ["relabel", [[a, b] for a, b in zip(machines, perm)]]
            else:
                e = ["insert_op", j, rng.randint(0, len(sim[j])), rng.choice(machines), rng.choice([0, 1, 6])]
            _apply_js_edit(sim, e)
        out.append({"edit": e, "call": call_fn(sim, si)})
    return out


def js_history_cases(ctx, rng):
    cases = []

    def call_small(sim, si):
        return {"rule": rng.choice(RULES), "local_search": rng.random() < 0.85, "max_iter": rng.choice([0, 3, 30, 200]), "seed": rng.randrange(50)}

    def call_mid(sim, si):
        c, per_m, _ops = _js_cost(sim)
        return {"rule": rng.choice(RULES), "local_search": True, "max_iter": max(1, min(25, int(0.2 / (c * per_m)))), "seed": rng.randrange(50)}
    n_small, n_mid, n_cross = (14, 6, 4) if ctx.quick else (200, 60, 30)
    for _ in range(n_small):
        jobs = gen_jobshop(rng, rng.randint(1, 4), rng.randint(1, 3), rng.choice(JS_KINDS), rng.choice(["int", "zeros", "ties"]))
        cases.append({"kind": "js_history", "family": "js_history", "jobs": jobs, "steps": _js_history(rng, jobs, rng.randint(3, 8), call_small), "fresh": True})
    for _ in range(n_mid):
        jobs = gen_jobshop(rng, rng.randint(8, 12), rng.randint(4, 6), rng.choice(JS_KINDS), rng.choice(JS_DURS[:4]))
        cases.append({"kind": "js_history", "family": "js_history", "jobs": jobs, "steps": _js_history(rng, jobs, rng.randint(3, 6), call_mid), "fresh": True})
    for _ in range(n_cross):
        # grows through 128 operations by appends, then shrinks again
        jobs = gen_jobshop(rng, 12, 10, "classic", "int")
        steps = [{"edit": None, "call": call_mid(jobs, 0)}]
        sim = [[(m, d) for m, d in job] for job in jobs]
        for g in range(3):
            e = ["add_job", [[m, rng.randint(1, 9)] for m in rng.sample(range(10), rng.choice([5, 6, 10]))]]
            _apply_js_edit(sim, e)
            steps.append({"edit": e, "call": call_mid(sim, g + 1)})
        for g in range(2):
            e = ["del_job", rng.randrange(len(sim))]
            _apply_js_edit(sim, e)
            steps.append({"edit": e, "call": call_mid(sim, g + 4)})
        steps.append({"edit": None, "call": steps[-1]["call"]})
        cases.append({"kind": "js_history", "family": "js_history", "jobs": jobs, "steps": steps, "fresh": True})
    scope = dict(name="job shop histories on one jobs object", histories=len(cases), steps="3..8",
                 edits="in place between calls: replace / append / insert / pop an operation, add / delete / swap jobs, reverse the job list, relabel machines, no edit (same call again)",
                 sizes="1..4 jobs; 8..12 jobs x 4..6 machines; 120 operations growing through 128 to ~150 and back",
                 judged="every call against the jobs as they are at that call; same call on fresh equal objects; earlier Results untouched; "
                        "last call compared with a fresh interpreter")
    return [scope], cases


# ----------------------------------------------------------------------------------------------- VRP
def _vrp_case_from(inst, **kw):
    c = {"kind": "vrp_solve", "customers": inst["customers"], "vehicles": inst["vehicles"], "vehicle_capacity": None, "depot": inst["depot"]}
    c.update(kw)
    return c


def _vrp_iters(n, budget):
    """max_iter that keeps one solve_vrptw call around `budget` CPU seconds on the unchanged tree."""
    per = 2.2e-6 * n ** 2.2 + 2e-4
    return max(1, min(3000, int(budget / per)))


VRP_LADDER_QUICK = [(10, 2), (12, 3), (16, 4), (17, 1), (20, 1), (20, 3), (33, 3), (65, 4), (100, 4), (130, 5), (200, 6), (260, 8), (300, 6)]
VRP_LADDER_MORE = [(24, 2), (40, 2), (50, 5), (65, 2), (129, 3), (150, 10), (260, 4), (300, 10), (300, 15), (9, 1), (35, 1), (11, 4), (14, 2)]


def _degree_for(n):
    return 0.3 if n <= 40 else (0.15 if n <= 130 else 0.03)


def _walk_steps(rng, n, length, multi, V):
    steps = []
    deg = _degree_for(n)
    for si in range(length):
        if si % 2 == 0:
            # (re-inserting a whole route of a 200+ customer plan costs minutes: route_removal only up to 130 customers)
            pick = rng.choice(["random_removal", "worst_removal", "related_removal"] + (["route_removal"] if n <= 130 else [])
                              + (["sync_removal"] if multi else []))
            if pick == "route_removal":
                args = {} if rng.random() < 0.6 else {"n_routes": rng.randint(0, V + 1)}
            elif pick == "sync_removal":
                args = {}
            else:
                args = {"degree": rng.choice([deg, deg / 2, min(1.0, deg * 2)])}
                if rng.random() < 0.12:
                    args = {"degree": rng.choice([0.0, 1.0] if n <= 65 else [0.0])} if rng.random() < 0.7 else {}     # extremes / documented default
        else:
            pick = rng.choice(["greedy_insertion", "regret_insertion", "regret_insertion"] + (["sync_aware_insertion"] * 2 if multi else []))
            args = {"k": rng.choice([2, 3, 1, 5])} if pick == "regret_insertion" and rng.random() < 0.7 else {}
        st = {"op": pick, "args": args, "seed": rng.randrange(10 ** 6)}
        if si >= 2 and rng.random() < 0.25:
            st["on"] = rng.randrange(0, si)          # go back to an older state (incumbent / best state kept by the search)
        if rng.random() < 0.2:
            st["repeat"] = True
        steps.append(st)
    return steps


def _walk_case(rng, inst, start, length, family, **kw):
    n, V = len(inst["customers"]), len(inst["vehicles"])
    multi = any(c[7] > 1 for c in inst["customers"])
    if start == "planted":
        routes, un = [list(r) for r in inst["planted"]], []
    else:
        routes, un = [[] for _ in range(V)], [c[0] for c in inst["customers"]]
    steps = _walk_steps(rng, n, length, multi, V)
    if start != "planted":
        steps[0] = {"op": "greedy_insertion", "args": {}, "seed": rng.randrange(10 ** 6)}
        steps[1:] = _walk_steps(rng, n, length - 1, multi, V)
    c = {"kind": "vrp_walk", "family": family, "customers": inst["customers"], "vehicles": inst["vehicles"], "depot": inst["depot"],
         "routes": routes, "unassigned": un, "steps": steps}
    c.update(kw)
    return c


def vrp_ladder_cases(ctx, rng):
    cases = []
    sizes = VRP_LADDER_QUICK if ctx.quick else VRP_LADDER_QUICK + VRP_LADDER_MORE
    budget = 0.8 if ctx.quick else 3.0
    combos = [("mixed", "exact", 0.0), ("tight", "uniform", 0.0), ("loose", "mixed", 0.08), ("open", "inf", 0.0), ("exact", "exact", 0.05),
              ("mixed", "slack", 0.15)]
    idx = 0
    for rep in range(1 if ctx.quick else 2):
        for n, V in sizes:
            for _k in range(2 if ctx.quick else 3):
                windows, cap, pm = combos[idx % len(combos)]
                coords = ["euclid", "euclid", "cluster", "float"][idx % 4]
                idx += 1
                inst = gen_vrp(rng, n, V, coords=coords, windows=windows, cap=cap, p_multi=pm if V > 1 else 0.0)
                kw = dict(family="vrp_ladder", max_iter=_vrp_iters(n, budget), max_no_improve=rng.choice([50, 500]), seed=rng.randrange(10 ** 4),
                          cpu_limit=3600)
                if cap == "uniform":
                    c = _vrp_case_from(inst, **kw)
                    c["vehicles"], c["vehicle_capacity"] = V, inst["vehicles"][0][1]
                else:
                    c = _vrp_case_from(inst, **kw)
                if idx % 3 == 0:
                    c["as_tuples"], c["min_tuple"] = True, 3
                cases.append(c)
                # operator walk that keeps every state, from the planted plan or from a greedy start
                length = (10 if n <= 130 else 6) if ctx.quick else (24 if n <= 130 else 10)
                cases.append(_walk_case(rng, inst, "planted" if idx % 2 else "greedy", length, "vrp_ladder", cpu_limit=3600,
                                        fresh=(idx % 4 == 0)))
    scope = dict(name="VRPTW size ladder (planted feasible plans)", sizes_customers_x_vehicles=[list(s) for s in sizes],
                 windows="open / loose / tight / meeting the planted arrival exactly / mixed", capacities="equal to the planted load (bind exactly) / fleet-wide / slack / unlimited",
                 coordinates="integer, clustered with duplicates, float", multi_vehicle_share=[0.0, 0.05, 0.08, 0.15], cases=len(cases),
                 oracle="planted plan certified feasible by the plain oracle (objective = distance); every state that goes in or out of an operator "
                        "inside the search and in the walks is checked completely (partition, arrival recurrence) and re-scored",
                 max_iter="from a cost model (about %.1f CPU s per solve)" % budget)
    return [scope], cases


def vrp_option_cases(ctx, rng):
    cases = []
    bases = [gen_vrp(rng, 8, 2, coords="grid", windows="mixed", cap="exact", p_multi=0.3),
             gen_vrp(rng, 20, 3, coords="euclid", windows="mixed", cap="exact", p_multi=0.1),
             gen_vrp(rng, 30, 1, coords="euclid", windows="loose", cap="exact"),
             gen_vrp(rng, 40, 2, coords="cluster", windows="tight", cap="slack", p_multi=0.05)]
    big = [0.0, 1e-9, 1e9, 2.0 ** 40]
    ladders = {
        "vehicle_capacity": [None, 0, "exact", 1e9, 0.5],
        "distance_weight": [None] + big, "vehicle_weight": [None] + big + [10.0], "tw_penalty": [None] + big, "capacity_penalty": [None] + big,
        "sync_penalty": [None] + big,
        "max_iter": [None, 0, 1, 150], "max_no_improve": [None, 1, 10 ** 6],
        "seed": [0, 7, 2 ** 31 - 1, 2 ** 63, 12345678901234567890123],
        "progress": [None, (0, None, None), (1, None, None), (1, False, 5), (7, 0, None), (10 ** 6, None, 1), (1, None, 1), (100, False, 100)],
        "form": [None, "tuples3", "tuples8", "capacity_with_list"],
    }

    def mk(inst, cfg):
        n = len(inst["customers"])
        c = _vrp_case_from(inst, family="vrp_options", seed=3, cpu_limit=3600)
        mi, mni = cfg.get("max_iter"), cfg.get("max_no_improve")
        # keep the run length sane: the default max_iter (10000) must end through max_no_improve
        if mi is None and mni == 10 ** 6:
            mi = 300
        if mi is None and mni is None and n > 10:
            mni = 60
        if mi is not None:
            c["max_iter"] = mi
        if mni is not None:
            c["max_no_improve"] = mni
        w = {}
        for k in ("distance_weight", "vehicle_weight", "tw_penalty", "capacity_penalty", "sync_penalty"):
            if cfg.get(k) is not None:
                w[k] = cfg[k]
        if w:
            c["weights"] = w
        if cfg.get("seed") is not None:
            c["seed"] = cfg["seed"]
        vc = cfg.get("vehicle_capacity")
        if vc is not None:
            loads = [v[1] for v in inst["vehicles"] if v[1] is not None]
            c["vehicles"] = len(inst["vehicles"])
            c["vehicle_capacity"] = (max(loads) if loads else 5) if vc == "exact" else vc
        p = cfg.get("progress")
        if p is not None:
            c["progress_interval"], c["cb_ret"] = p[0], p[1]
            if p[2] is not None:
                c["stop_at"] = p[2]
        f = cfg.get("form")
        if f in ("tuples3", "tuples8"):
            c["as_tuples"], c["min_tuple"] = True, int(f[-1])
        elif f == "capacity_with_list" and vc is None:
            c["capacity_with_list"], c["vehicle_capacity"] = True, 1.0     # documented as used only with an int fleet
        return c
    for bi, inst in enumerate(bases):
        for key, vals in ladders.items():
            for v in vals:
                if ctx.quick and bi >= 2 and key in ("seed", "form", "vehicle_weight", "distance_weight"):
                    continue
                cfg = {key: v}
                if key not in ("max_iter", "max_no_improve"):
                    cfg["max_iter"] = 120 if bi < 2 else 40
                cases.append(mk(inst, cfg))
    R = 60 if ctx.quick else 1500
    for _ in range(R):
        inst = rng.choice(bases)
        cfg = {k: rng.choice(v) for k, v in ladders.items()}
        if cfg["max_iter"] is None and rng.random() < 0.8:
            cfg["max_iter"] = rng.choice([30, 150, 400])
        cases.append(mk(inst, cfg))
    scope = dict(name="solve_vrptw option ladder", instances="8 customers / 2 vehicles (30% multi-vehicle), 20/3, 30/1, 40/2 - all planted",
                 keywords={k: [repr(x) for x in v] for k, v in ladders.items()}, one_at_a_time=True, random_combinations=R, cases=len(cases))
    return [scope], cases


def vrp_long_cases(ctx, rng):
    cases = []
    specs = [(12, 2, 5000), (20, 1, 4000), (25, 3, 3000), (33, 2, 2000)] if ctx.quick else \
        [(12, 2, 10000), (20, 1, 10000), (25, 3, 8000), (8, 3, 20000), (33, 2, 6000), (18, 2, 10000), (10, 1, 15000), (30, 4, 6000), (45, 2, 3000), (65, 3, 1500)]
    for n, V, mi in specs:
        for rep in range(1 if ctx.quick else 2):
            inst = gen_vrp(rng, n, V, coords="euclid", windows=rng.choice(["mixed", "tight", "loose"]), cap=rng.choice(["exact", "mixed"]),
                           p_multi=0.15 if V > 1 and rep == 0 else 0.0)
            cases.append(_vrp_case_from(inst, family="vrp_long", max_iter=mi, max_no_improve=10 ** 6, seed=rng.randrange(10 ** 4), cpu_limit=3600))
    scope = dict(name="solve_vrptw long runs", runs=[list(s) for s in specs], cases=len(cases),
                 note="max_no_improve = 10^6 so that all iterations run: the adaptive weights are updated every 100 iterations, the acceptance temperature "
                      "decays over thousands of iterations; every operator call on the way is checked")
    return [scope], cases


def vrp_numeric_cases(ctx, rng):
    """Collinear customers with dyadic coordinates / windows / service times: every distance and clock value is a binary64
    value, so arrival times, lateness, spread and overload are compared with the oracle bit for bit (tolerance 0).
    Windows meet the planted arrival exactly or miss it by one granule."""
    cases = []
    tiers = [(G40, 2, 5, 8, 30), (G30, 3, 8, 16, 60), (G20, 3, 12, 16, 60)]
    R = 60 if ctx.quick else 1500
    for g, vmax, nmax, span, late in tiers:
        for rep in range(R):
            n = rng.randint(2, nmax)
            V = rng.randint(1, vmax)
            inst = gen_vrp(rng, n, V, coords="line", windows=rng.choice(["tight", "exact", "mixed"]), cap=rng.choice(["exact", "mixed", "uniform"]),
                           p_multi=rng.choice([0.0, 0.3]) if V > 1 else 0.0, gran=g, service="dyadic", span=span, late=late,
                           depot=rng.choice([(0, 0), (1, 0.5), (-2, 3)]))
            c = _vrp_case_from(inst, family="vrp_numeric", max_iter=rng.choice([10, 40, 120]), max_no_improve=500, seed=rng.randrange(10 ** 4), try_exact=True)
            if rng.random() < 0.5:
                c["weights"] = rng.choice([{"tw_penalty": 2.0 ** 40}, {"sync_penalty": 2.0 ** 40, "tw_penalty": 2.0 ** 30}, {"capacity_penalty": 2.0 ** 40, "distance_weight": 0.0},
                                           {"distance_weight": 2.0 ** -20, "tw_penalty": 1.0}])
            cases.append(c)
            if rep % 2 == 0:
                cases.append(_walk_case(rng, inst, rng.choice(["planted", "greedy"]), rng.randint(4, 10), "vrp_numeric", try_exact=True))
    scope = dict(name="VRPTW fine-grained numerics (exact arithmetic instances)", granules=["2^-40 (<=5 customers)", "2^-30 (<=8)", "2^-20 (<=12)"],
                 cases=len(cases), windows="meet the planted arrival exactly / +- one granule / +0.5..3", capacities="equal to planted load",
                 weights="defaults and powers of two up to 2^40 (a lateness of 2^-40 is worth 1.0)",
                 oracle="vrp_exactness() certifies per instance that no float operation can round; then tolerance 0")
    return [scope], cases


def _vrp_history(rng, inst, steps, mi_fn):
    model = {"customers": [list(c) for c in inst["customers"]], "vehicles": [list(v) for v in inst["vehicles"]]}
    out = []
    for si in range(steps):
        e = None
        n, V = len(model["customers"]), len(model["vehicles"])
        if si:
            r = rng.random()
            if r < 0.15:
                e = None
            elif r < 0.45:
                i = rng.randrange(n)
                row = list(model["customers"][i])
                what = rng.choice(["demand", "window", "move", "req", "service"])
                if what == "demand":
                    row[3] = rng.choice([0, 1, 4, 9, 50])
                elif what == "window":
                    row[4] = float(rng.randint(0, 40))
                    row[5] = rng.choice([None, row[4], row[4] + 5.0, row[4] + 100.0])
                elif what == "move":
                    row[1], row[2] = rng.randint(-30, 30), rng.randint(-30, 30)
                elif what == "req":
                    row[7] = rng.choice([1, 2, 2, 3])
                else:
                    row[6] = rng.choice([0, 1, 10])
                e = ["set_cust", i, row]
            elif r < 0.62:
                e = ["add_cust", [n + 1, rng.randint(-30, 30), rng.randint(-30, 30), rng.choice([0, 1, 3]), 0.0, rng.choice([None, 80.0, 300.0]), rng.choice([0, 2]),
                                  rng.choice([1, 1, 1, 2])]]
            elif r < 0.72 and n > 1:
                e = ["pop_cust"]
            elif r < 0.84:
                e = ["set_veh", rng.randrange(V), rng.choice([None, 3, 10, 40])]
            elif r < 0.93:
                e = ["add_veh", rng.choice([None, 5, 20])]
            elif V > 1:
                e = ["pop_veh"]
            # mirror on the model
            if e:
                k = e[0]
                if k == "set_cust":
                    model["customers"][e[1]] = list(e[2])
                elif k == "add_cust":
                    model["customers"].append(list(e[1]))
                elif k == "pop_cust":
                    model["customers"].pop()
                elif k == "set_veh":
                    model["vehicles"][e[1]] = [e[1], e[2]]
                elif k == "add_veh":
                    model["vehicles"].append([V, e[1]])
                elif k == "pop_veh":
                    model["vehicles"].pop()
        call = {"max_iter": mi_fn(len(model["customers"])), "max_no_improve": rng.choice([20, 500]), "seed": rng.randrange(100)}
        if rng.random() < 0.3:
            call["weights"] = _rand_weights(rng) or {"vehicle_weight": 10.0}
        out.append({"edit": e, "call": call})
    if len(out) >= 3:
        out[-1] = {"edit": None, "call": out[-2]["call"]}      # the same call once more at the end
    return out


def vrp_history_cases(ctx, rng):
    cases = []
    n_small, n_mid = (14, 8) if ctx.quick else (200, 80)
    for i in range(n_small):
        n, V = rng.randint(1, 7), rng.randint(1, 3)
        inst = gen_vrp(rng, n, V, coords=rng.choice(["grid", "euclid"]), windows="mixed", cap="mixed", p_multi=rng.choice([0.0, 0.4]))
        cases.append({"kind": "vrp_history", "family": "vrp_history", "customers": inst["customers"], "vehicles": inst["vehicles"], "depot": inst["depot"],
                      "form": "rows" if i % 2 else "Customer", "steps": _vrp_history(rng, inst, rng.randint(3, 7), lambda n: rng.choice([0, 5, 40, 120])), "fresh": True})
    for i in range(n_mid):
        n, V = rng.randint(18, 45), rng.randint(1, 3)
        inst = gen_vrp(rng, n, V, coords="euclid", windows=rng.choice(["mixed", "loose"]), cap="mixed", p_multi=rng.choice([0.0, 0.1]) if V > 1 else 0.0)
        cases.append({"kind": "vrp_history", "family": "vrp_history", "customers": inst["customers"], "vehicles": inst["vehicles"], "depot": inst["depot"],
                      "form": "rows" if i % 2 else "Customer", "steps": _vrp_history(rng, inst, rng.randint(3, 5), lambda n: _vrp_iters(n, 0.15)), "fresh": True})
    scope = dict(name="solve_vrptw histories on one customers / vehicles object", histories=len(cases), steps="3..7",
                 edits="in place between calls: change a customer's demand / window / position / required_vehicles / service time (row edited in place or list element replaced), "
                       "append / pop a customer, change / append / pop a vehicle, no edit (same call again)",
                 sizes="1..7 customers; 18..45 customers on 1..3 vehicles (routes longer than 16 stops)",
                 judged="every call against the customers as they are at that call; same call on fresh equal objects; earlier Results untouched; "
                        "last call compared with a fresh interpreter")
    return [scope], cases


# =============================================================================================== round 3: presentation diversity
# The structural generators above (small-scope random, planted mid-size) re-run with the same problem PRESENTED in another
# legal way: the fields of the Vehicle / Customer records at unusual legal values, the records in another legal form, the
# lists in another container.  The oracle works on the de-presented instance (plain rows, route v = list position v).
VEH_ID_STYLES = ("positional", "reversed", "permuted", "all_zero", "one_object", "some_duplicated", "from_one", "plates",
                 "negative", "huge", "far_duplicated")


def _veh_ids(rng, style, k):
    if style == "positional":
        return list(range(k))
    if style == "reversed":
        return list(range(k - 1, -1, -1))
    if style == "permuted":
        ids = list(range(k))
        rng.shuffle(ids)
        return ids
    if style in ("all_zero", "one_object"):
        return [0] * k
    if style == "some_duplicated":
        return [rng.randrange(max(1, k - 1)) for _ in range(k)]
    if style == "from_one":
        return list(range(1, k + 1))
    if style == "plates":
        return [4711 + 13 * i for i in range(k)]
    if style == "negative":
        return [-1 - 2 * i for i in range(k)]
    if style == "huge":
        return [10 ** 12 + 7 * i for i in range(k)]
    if style == "far_duplicated":
        return [rng.choice([7, 7, 42]) for _ in range(k)]
    raise ValueError(style)


def _retype(rng, x, p_int=0.5):
    """An equal number of the other numeric type where one exists (3 <-> 3.0); None (= inf) and non-integral values stay."""
    if x is None or isinstance(x, bool) or x != x or x in (inf, -inf):
        return x
    if float(x).is_integer() and abs(x) < 2 ** 50:
        return int(x) if rng.random() < p_int else float(x)
    return x


def _present_vrp(rng, inst, style=None):
    """-> (customers rows, vehicles rows, depot, present dict): the instance with its record fields / forms / containers
    drawn afresh.  Customer ids stay 1..n in list order (assumption of the check: the library indexes by id)."""
    custs = [list(c) for c in inst["customers"]]
    n = len(custs)
    V = len(inst["vehicles"])
    style = style or rng.choice(VEH_ID_STYLES)
    ids = _veh_ids(rng, style, V)
    caps = [v[1] for v in inst["vehicles"]]
    if style == "one_object" or rng.random() < 0.15:
        finite = [c for c in caps if c is not None]
        caps = [rng.choice([None, max(finite) if finite else 5])] * V       # "three identical trucks"
    cap_mode = rng.choice(["as_is", "retype", "mixed"])
    vehs = []
    for i in range(V):
        cap = caps[i]
        if cap_mode != "as_is":
            cap = _retype(rng, cap, 1.0 if (cap_mode == "mixed" and i == 0) else 0.5)
            if cap_mode == "mixed" and i > 0 and cap is not None and rng.random() < 0.5 and style != "one_object":
                cap = float(cap) + rng.choice([0.5, 0.25])                  # int first, non-integral float later
        row = [ids[i], cap]
        vehs.append(row)
    md = rng.random()
    if md < 0.35:                                                           # max_duration: documented field, no term of the documented sum
        dur = rng.choice([None, 0, 0.0, 5, 480.0, 1e9])
        for i, row in enumerate(vehs):
            row.append(dur if (style == "one_object" or rng.random() < 0.6) else rng.choice([None, 1, 60.5, 10 ** 6]))
    # --- customers: required_vehicles 1..4, window / service / demand presentations, number types
    rq = rng.random()
    for i, c in enumerate(custs):
        if rq < 0.45 and rng.random() < 0.4:
            c[7] = rng.choice([2, 3, 3, 4, 4]) if V >= 2 else rng.choice([1, 2, 3])
        r = rng.random()
        if r < 0.08:
            c[5] = c[4]                                                     # window of zero width
        elif r < 0.14 and c[5] is None:
            c[5] = 1e9                                                      # "no deadline" spelled as a large number
        elif r < 0.18:
            c[5] = None
    nt = rng.choice(["as_is", "ints", "floats", "mixed", "mixed"])
    if nt != "as_is":
        for i, c in enumerate(custs):
            late = nt == "mixed" and i >= max(1, n // 2)
            for f in (1, 2, 3, 4, 5, 6):
                c[f] = _retype(rng, c[f], {"ints": 1.0, "floats": 0.0, "mixed": 0.0 if late else 1.0}[nt])
            if late and rng.random() < 0.6:                                 # int first, non-integral float later
                f = rng.choice([1, 2, 3, 6])
                c[f] = float(c[f]) + rng.choice([0.5, 0.25, 0.125])
            if late and rng.random() < 0.3 and c[5] is not None:
                c[5] = float(c[5]) + 0.5
    depot = list(inst["depot"])
    if nt != "as_is":
        depot = [_retype(rng, depot[0], 0.5), _retype(rng, depot[1], 0.5)]
    forms = [rng.choice(["obj", "obj", "kw", "tuple", "short", "list"]) for _ in range(rng.choice([1, 1, 2, 3]))]
    present = {"veh_ids": style, "veh_alias": style == "one_object" or rng.random() < 0.4, "veh_box": rng.choice(["list", "list", "tuple"]),
               "cust_box": rng.choice(["list", "list", "tuple"]), "cust_form": forms, "depot_box": rng.choice(["tuple", "list"]),
               "numbers": nt, "capacities": cap_mode}
    return custs, vehs, depot, present


def _live_present(customers, vehicles):
    """Everything the caller can see of the argument objects: container kind, element identity, every field."""
    return (type(customers).__name__, [(id(c), type(c).__name__, repr(c)) for c in customers],
            type(vehicles).__name__, vehicles if isinstance(vehicles, int) else [(id(v), repr(v)) for v in vehicles])


def run_vrp_present_case(case):
    """solve_vrptw on a presented problem: ONE set of argument objects, called twice with the same seed.
    Judged: every operator call inside the search (monitor), the Result against the de-presented instance,
    frame 'the caller's customers / vehicles objects are unchanged', 'the same call repeated gives the same answer'."""
    import solvor.vrp as vm
    pc, pv = _plain_customers(case), _plain_vehicles(case)
    customers, vehicles = _build_problem(vm, case)
    live = _live_present(customers, vehicles)
    res, out, mon = _vrp_call(vm, customers, vehicles, case, pc, pv)
    info = {"calls": mon.calls, "skipped": mon.skipped_pre, "longest_route": mon.longest_route, "evals": 1,
            "nontrivial": len(case["customers"]) >= 2 and sum(mon.calls.values()) >= 2}
    if _live_present(customers, vehicles) != live:
        out.append(("C18/solve_vrptw/frame:input-not-mutated", "the customers / vehicles arguments were edited by the call"))
    if res is None:
        return out, info
    bad, _routes = _judge_vrp_result(vm, res, pc, pv, case.get("weights") or {})
    out += bad
    fp = _vrp_fp(res)
    res2, bad2, _ = _vrp_call(vm, customers, vehicles, case, pc, pv, monitor=False)
    info["evals"] = 2
    if res2 is None:
        out += [(o, f"the same call repeated on the same objects: {d}") for o, d in bad2]
    elif not _same(_vrp_fp(res2), fp):
        out.append(("C18/solve_vrptw/history:same-call-same-answer",
                    f"the same call on the same argument objects with the same seed gave a different Result (first vs second) in {_fp_diff(fp, _vrp_fp(res2))}"))
    if not _same(_vrp_fp(res), fp):
        out.append(("C18/solve_vrptw/frame:earlier-results-untouched", "the first Result changed during the second call"))
    if _live_present(customers, vehicles) != live:
        out.append(("C18/solve_vrptw/frame:input-not-mutated", "the customers / vehicles arguments were edited by the repeated call"))
    return out, info


def vrp_present_cases(ctx, rng):
    cases = []
    n_small, n_mid, n_walk_small, n_walk_mid = (500, 60, 400, 80) if ctx.quick else (6000, 500, 5000, 600)

    def small_inst():
        depot = rng.choice([[0, 0], [0, 0], [1, 1], [-2, 3]])
        n = rng.choice([1, 2, 3, 3, 4, 4, 5, 6, 7])
        V = rng.choice([1, 2, 2, 3, 3, 4, 5])
        custs = _rand_customers(rng, n, depot, rng.choice([0.0, 0.3, 0.6]))
        return {"customers": custs, "vehicles": [[i, rng.choice([None, None, 2, 3, 5, 8])] for i in range(V)], "depot": depot}

    def mid_inst():
        n, V = rng.randint(8, 24), rng.randint(2, 6)
        return gen_vrp(rng, n, V, coords=rng.choice(["euclid", "grid", "cluster", "float"]), windows=rng.choice(["mixed", "loose", "tight"]),
                       cap=rng.choice(["exact", "mixed", "slack"]), p_multi=rng.choice([0.0, 0.15, 0.3]))
    k = 0
    for count, make, mid in ((n_small, small_inst, False), (n_mid, mid_inst, True)):
        for _ in range(count):
            inst = make()
            custs, vehs, depot, present = _present_vrp(rng, inst, VEH_ID_STYLES[k % len(VEH_ID_STYLES)])
            k += 1
            c = {"kind": "vrp_present", "customers": custs, "vehicles": vehs, "vehicle_capacity": None, "depot": depot, "present": present,
                 "max_iter": _vrp_iters(len(custs), 0.04) if mid else rng.choice([0, 1, 3, 20, 60, 120]),
                 "max_no_improve": rng.choice([5, 40, 500]), "seed": rng.randrange(10 ** 4)}
            w = _rand_weights(rng)
            if w:
                c["weights"] = w
            if rng.random() < 0.15:
                c["stop_at"] = rng.choice([1, 2, 5, 12])
                c["max_iter"] = max(c["max_iter"], 20)
            if rng.random() < 0.08:                  # the default fleet (vehicles = k [, vehicle_capacity]) next to the presented ones
                c["vehicles"], c["vehicle_capacity"] = len(vehs), rng.choice([None, 3, 8.5])
                if c["vehicle_capacity"] is None:
                    del c["vehicle_capacity"]
            cases.append(c)
    for count, make, mid in ((n_walk_small, small_inst, False), (n_walk_mid, mid_inst, True)):
        for _ in range(count):
            inst = make()
            custs, vehs, depot, present = _present_vrp(rng, inst, VEH_ID_STYLES[k % len(VEH_ID_STYLES)])
            k += 1
            pinst = {"customers": custs, "vehicles": vehs, "depot": depot, "planted": inst.get("planted")}
            start = "planted" if (mid and rng.random() < 0.5) else "greedy"
            cases.append(_walk_case(rng, pinst, start, rng.randint(4, 12) if not mid else rng.randint(6, 12), "vrp_present", present=present))
    scope = dict(name="VRPTW presentation diversity (record fields, record forms, containers)", cases=len(cases),
                 generators="the small-scope random generator (1..7 customers, 1..5 vehicles) and the planted mid-size generator (8..24 customers, 2..6 vehicles)",
                 vehicle_ids=list(VEH_ID_STYLES), vehicle_fields="capacity int / float / inf, int first and non-integral float later, one capacity for all; "
                 "max_duration absent / 0 / finite / 1e9; one Vehicle object repeated (`[Vehicle(0, cap)] * k`); fleet given as list / tuple / int (default path)",
                 customer_fields="required_vehicles 1..4 (also above the fleet size); zero-width windows, tw_end = inf / 1e9; every number as int / float / "
                 "int first and non-integral float later; Customer positional / by keyword with defaults left out / full tuple / short tuple / list row, mixed in one list; "
                 "customers as list / tuple; depot as tuple / list of int / float",
                 judged="solve_vrptw (called twice on the same objects: monitor on every operator call, Result re-scored on the de-presented instance, arguments "
                        "unchanged, second answer == first) and walks of the exported operators on VRPState.from_problem(customers, presented fleet)",
                 left_out="customer ids other than 1..n in list order (the library indexes its customer list by id: outside the check's assumption); "
                          "one-shot iterators for customers / vehicles (the signature says list); string ids (the records are typed int)")
    return [scope], cases



# =============================================================================================== driver
def _chunks(lst, size):
    return [lst[i:i + size] for i in range(0, len(lst), size)]


R2_FAMILIES = [("js_ladder", "js_ladder_cases"), ("js_options", "js_option_cases"), ("js_long", "js_long_cases"),
               ("js_numeric", "js_numeric_cases"), ("js_history", "js_history_cases"), ("vrp_ladder", "vrp_ladder_cases"),
               ("vrp_options", "vrp_option_cases"), ("vrp_long", "vrp_long_cases"), ("vrp_numeric", "vrp_numeric_cases"),
               ("vrp_history", "vrp_history_cases"), ("vrp_present", "vrp_present_cases")]
_R2_HEAVY = {"js_ladder", "js_long", "vrp_ladder", "vrp_long"}       # one case per task, largest first
_R2_CHUNK = {"js_options": 6, "js_numeric": 12, "js_history": 2, "vrp_options": 4, "vrp_numeric": 12, "vrp_history": 2, "vrp_present": 12}


def _case_weight(case):
    """Scheduling hint only (largest tasks are started first)."""
    if "jobs" in case:
        ops = sum(len(j) for j in case["jobs"])
        return ops * ops * max(1, case.get("max_iter", 1) if case.get("local_search", True) else 0, len(case.get("pairs", ())))
    n = len(case.get("customers", ()))
    return n ** 2.2 * max(1, case.get("max_iter", 1), 4 * len(case.get("steps", ()))) * 10


def run(ctx: Ctx):
    from vf.prove import prove
    prove(ctx, ["specs.misc", "specs.jobshop"], "C18", lemma_groups=["js"])  # deductive part: _compute_makespan, _dispatch (valid and complete schedule for every rule and seed)
    from vf.pool import pmap
    use_repo()
    rng = random.Random(ctx.seed)
    js_scopes, js_cases = jobshop_cases(ctx, rng)
    so_scopes, so_cases = vrp_solve_cases(ctx, rng)
    op_scopes, op_cases = vrp_op_cases(ctx, rng)
    # round 2 families: their own generator streams (adding a family does not shift the cases of another)
    r2_cases = {}
    r2_scopes = []
    for fi, (fam, gen) in enumerate(R2_FAMILIES):
        sc, cs = globals()[gen](ctx, random.Random(ctx.seed * 1000 + 17 + fi))
        for c in cs:
            c["family"] = fam
        r2_cases[fam] = cs
        r2_scopes += sc
    for s in js_scopes + so_scopes + op_scopes + r2_scopes:
        name = s.pop("name")
        ctx.scope(name, **s)
    # one pool for everything: tag chunks, dispatch in a single map so that all 16 cores stay busy
    heavy = sorted((c for fam in _R2_HEAVY for c in r2_cases[fam]), key=_case_weight, reverse=True)
    work_heavy = [("r2", [c]) for c in heavy]
    work = [("js", ch) for ch in _chunks(js_cases, 400)] + [("so", ch) for ch in _chunks(so_cases, 25)] + \
           [("op", ch) for ch in _chunks(op_cases, 500)]
    for fam, size in _R2_CHUNK.items():
        work += [("r2", ch) for ch in _chunks(r2_cases[fam], size)]
    order = list(range(len(work)))
    random.Random(1).shuffle(order)  # balance the load; results are put back in order below
    res = pmap(_dispatch_chunk, work_heavy + [work[i] for i in order], chunksize=1)
    back_heavy = res[:len(work_heavy)]
    back = [None] * len(work)
    for i, r in zip(order, res[len(work_heavy):]):
        back[i] = r
    work = work + work_heavy
    back = back + back_heavy
    calls = {op: 0 for op in OPS}
    skipped = built = 0
    samples = []
    by_obl: dict[str, int] = {}
    kept: dict = {}
    failing_cases = {"js": 0, "so": 0, "op": 0, "r2": 0}
    fam_stats: dict = {}
    for (tag, ch), r in zip(work, back):
        ctx.count(r["n"], set(r["keys"]))
        failing_cases[tag] += r["nfail"]
        for obl, n in r["nviol"].items():
            by_obl[obl] = by_obl.get(obl, 0) + n
        for obl, case, det in r["viol"]:
            # the driver writes at most 2 replays per obligation and 41 in all: hand over the first
            # MAX_PER_OBLIGATION violations per obligation that are not absorbed by known_findings.json
            # (cases are generated smallest first), count the rest
            # (one in-search and one direct-call witness where both exist)
            kk = obl if tag == "js" else (obl, tag if tag != "r2" else r["family"])
            if kept.get(kk, 0) < (MAX_PER_OBLIGATION if tag == "js" else 1):
                n_before = len(ctx.violations)
                ctx.violation(obl, case, det)
                if len(ctx.violations) > n_before:
                    kept[kk] = kept.get(kk, 0) + 1
            elif ctx._known_match({"property": ctx.pid, "obligation": obl, "case": case, "detail": det}) is not None:
                ctx.violation(obl, case, det)  # keeps the known-finding hit counter honest
        if tag == "so":
            for op, n in r["calls"].items():
                calls[op] += n
            skipped += r["skipped"]
        if tag == "js":
            built += r["built"]
        if tag == "r2":
            fs = fam_stats.setdefault(r["family"], {"cases": 0, "evaluations": 0, "failing_cases": 0})
            fs["cases"] += len(ch)
            fs["evaluations"] += r["n"]
            fs["failing_cases"] += r["nfail"]
            for k, v in r["stats"].items():
                if k == "longest_route":
                    fs[k] = max(fs.get(k, 0), v)
                elif v:
                    fs[k] = fs.get(k, 0) + v
    for lst in (js_cases, so_cases, op_cases):
        samples += [lst[0], lst[len(lst) // 2], lst[-1]]
    for fam in ("js_history", "vrp_numeric", "vrp_history", "vrp_present"):
        if r2_cases[fam]:
            samples.append(min(r2_cases[fam], key=lambda c: len(canon(c))))
    ctx.count(0, (), samples)
    ctx.notes["operator_calls_checked_inside_search"] = calls
    ctx.notes["operator_calls_with_broken_input_skipped"] = skipped
    ctx.notes["job_shop_schedules_validated_inside_search"] = built
    ctx.notes["violating_evaluations_by_obligation"] = dict(sorted(by_obl.items()))
    ctx.notes["failing_cases"] = {"job_shop": failing_cases["js"], "solve_vrptw": failing_cases["so"],
                                  "operator_direct": failing_cases["op"], "round2_families": failing_cases["r2"]}
    ctx.notes["cases"] = {"job_shop": len(js_cases), "solve_vrptw": len(so_cases), "operator_direct": len(op_cases),
                          **{fam: len(cs) for fam, cs in r2_cases.items()}}
    ctx.notes["round2_families"] = fam_stats
    ctx.rule = ("job shop: exhaustive small alphabet x rules x (local_search,max_iter,seed), a 3x3 tiny-alphabet stratum and seeded random "
                "instances (sparse machine ids, ties, zero durations, repeated machines, early stop); non-trivial = at least two operations; "
                "VRP solve: exhaustive attribute grid for 1..2 customers x fleets x seeds plus seeded random instances; non-trivial = at least "
                "two customers and at least two operator calls inside the search; operators: every vrp_ok state of tiny instances x every "
                "operator/parameter/seed plus random states; non-trivial = the operator changed routes or unassigned; distinct = different case JSON. "
                "Beyond the small scope (seeded, each family its own stream): size ladder of PLANTED instances (job shops of 50..1800 operations, "
                "VRPTW with 20..300 customers whose planted plan is certified feasible) judged by the complete validity check + recomputed objective, "
                "the swap move probed on planted valid schedules; option ladders (every documented keyword absent / small / large, one at a time and "
                "combined); long runs (thousands of iterations); histories (one jobs / customers / vehicles object edited in place between calls, "
                "operator walks that keep and revisit every state; each answer judged for the input as it is at that call, compared with the same call "
                "on fresh objects and with a fresh interpreter); exact-arithmetic numerics (dyadic values down to 2^-40, tolerance 0). Non-trivial there = "
                "a history / walk with at least two effective steps, a solve with at least two operator calls, a swap probe that changed the schedule; "
                "an evaluation = one solver call, operator call or swap call. Presentation diversity (round 3, own stream): the small-scope random and the "
                "planted mid-size VRPTW generators with the Vehicle / Customer record fields, record forms and containers drawn afresh per instance "
                "(vehicle id style cycled over " + ", ".join(VEH_ID_STYLES) + "); solve_vrptw called twice on the same objects and operator walks; "
                "the oracle sees the de-presented rows (route v = list position v)")
    ctx.assumptions += [
        "customer ids are 1..n in list order (solve_vrptw indexes its customer list by id; the docs' examples do the same)",
        "job-shop durations are non-negative numbers (integers, or floats whose sums are exact in binary64 - the fine-grained family) and every job "
        "has at least one operation (anything else raises ValueError by design)",
        "the 'documented weighted sum' is distance_weight*distance + vehicle_weight*routes_used + tw_penalty*lateness + capacity_penalty*overload "
        "+ sync_penalty*sync_violation + 100000*|unassigned| with sync_violation = 1000 per missing vehicle else spread of arrival times "
        "(docs/algorithms/combinatorial/vrp.md parameter table + docstrings); float comparison with relative tolerance 1e-9, and tolerance 0 on "
        "instances certified free of rounding by oracles/jobshop_vrp_gen.vrp_exactness",
        "an operator is only held to ensures vrp_ok(result) when its input satisfied vrp_ok (calls on already broken states are counted, not judged)",
        "a multi-vehicle customer may be on any number >= 1 of routes (the statement asks no more)",
        "overlap on a machine = the two processing intervals share a stretch of positive length (a zero-duration operation overlaps nothing)",
        "'seed: random seed for reproducibility' (docs): a call with an explicit seed gives the same Result on reused objects, on fresh equal objects "
        "and in a fresh interpreter (PYTHONHASHSEED is fixed by ./check); an operator call does not modify any state other than the one it returns",
        "Vehicle.id is a label: the route of the vehicle at list position v is routes[v] (VRPState.routes is documented as one route per vehicle, "
        "solve_vrptw(vehicles=k) numbers its own fleet by position); Vehicle.max_duration is a documented field that is no term of the documented "
        "weighted sum; a tuple of Vehicle / Customer records is accepted like a list; presentation of a number (3 vs 3.0) does not change the instance",
        "job_shop._try_swap (anchor 'adjacent swap followed by a full greedy rebuild') maps a valid schedule to a valid schedule or None, whoever built the input",
    ]
    ctx.trusted += ["oracles/jobshop_vrp.py (plain recomputation; no solvor import)", "oracles/jobshop_vrp_gen.py (planted instances, certified by "
                    "the plain oracle before use; exactness test in Fractions)", "random.Random determinism", "multiprocessing fork pool",
                    "subprocess (fresh interpreter comparison)"]


def _dispatch_chunk(item):
    tag, ch = item
    if tag == "js":
        return w_jobshop(ch)
    if tag == "so":
        return w_vrp_solve(ch)
    if tag == "r2":
        return w_round2(ch)
    return w_vrp_op(ch)


def run_case_info(case):
    """-> (list of (obligation, detail), info) for any case kind; info carries evals / nontrivial for the counters."""
    k = case.get("kind")
    if k == "jobshop":
        bad, info = run_jobshop_case(case)
        info.update(evals=1, nontrivial=sum(len(j) for j in case["jobs"]) >= 2)
    elif k == "vrp_solve":
        bad, info = run_vrp_solve_case(case)
        info.update(evals=1, nontrivial=len(case["customers"]) >= 2 and sum(info["calls"].values()) >= 2)
    elif k == "vrp_op":
        bad, info = run_vrp_op_case(case)
        info.update(evals=1, nontrivial=info["changed"])
    elif k == "js_swap":
        bad, info = run_js_swap_case(case)
    elif k == "js_history":
        bad, info = run_js_history_case(case)
    elif k == "vrp_history":
        bad, info = run_vrp_history_case(case)
    elif k == "vrp_walk":
        bad, info = run_vrp_walk_case(case)
    elif k == "vrp_present":
        bad, info = run_vrp_present_case(case)
    else:
        raise ValueError(f"unknown case kind {k!r}")
    return bad, info


def run_case(case):
    return run_case_info(case)[0]


def replay(rec):
    use_repo()
    bad = run_case(rec["case"])
    same = [b for b in bad if b[0] == rec.get("obligation")]
    for obl, det in bad:
        print(f"replay: {obl} :: {det[:400]}")
    if not bad:
        print("replay: no violation")
    return 1 if (same or bad) else 0


if __name__ == "__main__":
    # `python -m checks.C18 --fresh` : one case on stdin, its fingerprint on stdout, in an interpreter that has done nothing else
    if "--fresh" in sys.argv:
        use_repo()
        print(json.dumps(fresh_fingerprint(json.load(sys.stdin))))

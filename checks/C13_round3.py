"""C13 round 3: presentation diversity (used by checks/C13.py; same contract, same obligation names + two frame clauses).

Every structural generator of the small scope and of the seeded mid-size families is run once more, each graph through a
presentation drawn per instance (checks/present3.py), as far as the property's quantifier allows it ("any hashable node
labels", "any start node for prim", "equal weights, negative weights", both kruskal back ends):

  node labels (prim)   None, falsy values (0, "", (), frozenset(), a falsy user-defined object), strings next to ints,
                       tuples, nested tuples, tuples holding None, PAIRS WHOSE FIRST ENTRY IS ITSELF A NODE, frozensets,
                       floats incl. inf, bools, user-defined hashable objects; references to a node (neighbour entries,
                       start) written as an equal but differently typed value (1 / 1.0 / True, (1, 2) / (1.0, 2.0))
  containers (prim)    graph as dict / defaultdict / OrderedDict / read-only mappingproxy; adjacency values as list, tuple,
                       dict-items view (re-iterable kinds only: prim reads every adjacency value more than once, one-shot
                       iterables are outside the statement)
  numbers              one input mixing int and float weights: int first and a non-integral float later, the other way
                       round, integral floats next to equal ints
  back end (kruskal)   backend="python" AND the default call without a backend argument (the Rust adapter when the
                       extension module is importable in the tree under check, else the fallback) - evidence says which
  frame clauses        the caller's edge list / adjacency mapping is unchanged after the call; the same call repeated on
                       the same objects gives the same answer

The oracle (array Prim, subset enumeration on the small ones, cycle-property certificate) sees the de-presented instance:
labels mapped back to 0..n-1 through a dict (so equal spellings are one node), weights as passed.
"""
from __future__ import annotations

import itertools
import random
import signal
import time
from collections import Counter, OrderedDict, defaultdict
from types import MappingProxyType

from checks import present3 as P
from oracles import mst as O
from vf.core import use_repo

WEIGHT_MODES = ("as-is", "int-first+fraction-later", "fraction-first+int-later", "integral-floats")
OUTERS = ("dict", "dict", "defaultdict", "ordered", "proxy")
INNERS = ("list", "tuple", "items", "mixed")
ENUM3 = 300        # subset enumeration as a second opinion up to this many subsets
CPU_BUDGET = 20    # CPU-seconds (ITIMER_VIRTUAL) for all calls on one graph of <= 30 nodes


def base():
    from checks import C13
    return C13


class CpuBudget(Exception):
    pass


class cpu_guard:
    """CPU-time (never wall-clock) budget around the solver calls on one graph"""

    def __init__(self, secs):
        self.secs = secs

    def _fire(self, *_a):
        raise CpuBudget(f"no answer within {self.secs} CPU-s")

    def __enter__(self):
        self.old = signal.signal(signal.SIGVTALRM, self._fire)
        signal.setitimer(signal.ITIMER_VIRTUAL, self.secs)

    def __exit__(self, *_a):
        signal.setitimer(signal.ITIMER_VIRTUAL, 0)
        signal.signal(signal.SIGVTALRM, self.old)
        return False


# ------------------------------------------------------------------ numbers
def is_int(w):
    return isinstance(w, int) and not isinstance(w, bool)


def retype_weights(rng, edges, mode):
    """-> (edges with some weights re-typed / shifted by k/4, the mode actually applied).  All sums stay exact."""
    m = len(edges)
    ints = [i for i, e in enumerate(edges) if is_int(e[2]) and abs(e[2]) < 2 ** 40]
    if mode == "as-is" or not ints:
        return list(edges), "as-is"
    es = list(edges)
    if mode == "integral-floats":
        for i in ints:
            if rng.random() < 0.5:
                es[i] = (es[i][0], es[i][1], float(es[i][2]))
        return es, mode
    if m < 2 or len(ints) < 2:
        return es, "as-is"
    keep = rng.choice(ints)  # stays an int
    frac = [i for i in ints if i != keep and rng.random() < 0.4] or [rng.choice([i for i in ints if i != keep])]
    for i in frac:
        es[i] = (es[i][0], es[i][1], es[i][2] + rng.choice((0.25, 0.5, 0.75)))
    return es, mode


def first_wanted(mode):
    """predicate on a weight: may stand first under this mode"""
    if mode == "int-first+fraction-later":
        return is_int
    if mode == "fraction-first+int-later":
        return lambda w: isinstance(w, float) and w != int(w)
    return None


def to_front(lst, pred, wpos):
    for i, e in enumerate(lst):
        if pred(e[wpos]):
            lst.insert(0, lst.pop(i))
            return True
    return False


# ------------------------------------------------------------------ building the arguments
def kruskal_cases(n, edges, mode, rng, rust):
    es = [[v, u, w] if rng.random() < 0.5 else [u, v, w] for u, v, w in edges]
    rng.shuffle(es)
    pred = first_wanted(mode)
    if pred:
        to_front(es, pred, 2)
    out = []
    for af in (False, True):
        for be in ("python", "default"):
            out.append({"fn": "kruskal", "r3": True, "n": n, "edges": es, "allow_forest": af, "backend": be,
                        "weights": mode, "default_is": "rust extension" if rust else "python fallback (no extension)"})
    return out


def prim_base_case(n, edges, mode, rng):
    """the presented graph, concrete: labels, key order, neighbour entries as written, containers"""
    universe = rng.choice(P.UNIVERSE_NAMES)
    lab = P.draw_labels(rng, n, universe)
    use_alias = rng.random() < (0.6 if universe in ("int-0..n-1", "numbers") else 0.25)

    def ref(i):
        x = lab[i]
        if use_alias and rng.random() < 0.5:
            return P.alias(rng, x)
        return x

    adj = [[] for _ in range(n)]
    twice = rng.random() < 0.5
    for u, v, w in edges:
        adj[u].append([ref(v), w])
        if u != v:
            adj[v].append([ref(u), w])
        elif twice:
            adj[u].append([ref(u), w])
    for a in adj:
        rng.shuffle(a)
    keys = list(range(n))
    rng.shuffle(keys)
    pred = first_wanted(mode)
    if pred and n:
        for k in keys:  # the first non-empty list starts with the wanted type
            if adj[k]:
                to_front(adj[k], pred, 1)
                break
    inner = rng.choice(INNERS)
    kinds = []
    for i in range(n):
        k = inner if inner != "mixed" else rng.choice(("list", "tuple", "items"))
        if k == "items" and len({x for x, _ in adj[i]}) != len(adj[i]):
            k = "list"  # parallel entries cannot live in a dict
        kinds.append(k)
    return {"fn": "prim", "r3": True, "universe": universe, "labels": [P.enc(x) for x in lab], "keys": keys,
            "nbrs": [[[P.enc(x), w] for x, w in a] for a in adj], "inner": kinds, "outer": rng.choice(OUTERS),
            "alias": use_alias, "weights": mode, "start": None}, lab, ref


def build_prim(case):
    lab = [P.dec(x) for x in case["labels"]]
    items = []
    for i in case["keys"]:
        lst = [(P.dec(x), w) for x, w in case["nbrs"][i]]
        k = case["inner"][i]
        items.append((lab[i], tuple(lst) if k == "tuple" else dict(lst).items() if k == "items" else lst))
    outer = case["outer"]
    if outer == "defaultdict":
        g = defaultdict(list)
        for k, v in items:
            g[k] = v
    elif outer == "ordered":
        g = OrderedDict(items)
    elif outer == "proxy":
        g = MappingProxyType(dict(items))
    else:
        g = dict(items)
    return g, lab


def snapshot(g):
    return repr([(k, type(v).__name__, list(v)) for k, v in g.items()]) + f" / {type(g).__name__} of {len(g)}"


def answer(res):
    return (res.status.name, repr(res.objective), repr(res.solution))


def call_solver(fn, key="mst"):
    """-> (result, exception).  pyo3 panics derive from BaseException.  Every call has its own CPU budget (checks/guard.py): a
    function that exhausted it twice in this worker is not called again."""
    from checks.guard import guarded_b
    try:
        return guarded_b(key, CPU_BUDGET, fn), None
    except (KeyboardInterrupt, SystemExit):
        raise
    except BaseException as e:  # noqa: BLE001 - any exception is a contract violation ("each return ...")
        return None, e


def run_case(case, repeat):
    """-> (result, exception, labels, frame violations [(suffix, detail)])"""
    from solvor.mst import kruskal, prim
    frame = []
    if case["fn"] == "kruskal":
        es = [tuple(e) for e in case["edges"]]
        before = repr(es)
        kw = {"backend": "python"} if case["backend"] == "python" else {}
        f = lambda: kruskal(case["n"], es, allow_forest=case["allow_forest"], **kw)  # noqa: E731
        snap = lambda: repr(es)  # noqa: E731
        lab = None
        what = "edge list"
    else:
        g, lab = build_prim(case)
        before = snapshot(g)
        st = case["start"]
        if st is None:
            f = lambda: prim(g)  # noqa: E731
        else:
            s = P.dec(st["as"])
            f = lambda: prim(g, start=s)  # noqa: E731
        snap = lambda: snapshot(g)  # noqa: E731
        what = "adjacency mapping"
    res, exc = call_solver(f, case["fn"])
    after = snap()
    if after != before:
        frame.append((f"frame:caller-owned-{what.replace(' ', '-')}-unchanged", f"before the call {before}, after it {after}"))
    elif repeat and exc is None:
        res2, exc2 = call_solver(f, case["fn"])
        a1 = answer(res)
        a2 = ("exception", repr(exc2), "") if exc2 is not None else answer(res2)
        if a1 != a2:
            frame.append(("ensures:same-answer-when-the-call-is-repeated", f"first call {a1}, the same call again on the same objects {a2}"))
        if snap() != before:
            frame.append((f"frame:caller-owned-{what.replace(' ', '-')}-unchanged", f"before the calls {before}, after two calls {snap()}"))
    return res, exc, lab, frame


def describe(case):
    if case["fn"] == "kruskal":
        return (f"[presentation: weights {case['weights']}; back end {case['backend']}"
                + (f" = {case['default_is']}" if case["backend"] == "default" else "") + "] ")
    st = case["start"]
    return (f"[presentation: labels '{case['universe']}' {[P.dec(x) for x in case['labels']]!r}"
            f"{', equal-but-differently-typed spellings' if case['alias'] else ''}; graph as {case['outer']} of "
            f"{sorted(set(case['inner']))}; weights {case['weights']}; start "
            f"{'default (first key)' if st is None else repr(P.dec(st['as']))}] ")


# ------------------------------------------------------------------ one graph through one presentation
def oracle3(n, edges):
    wd, c = O.dense_prim_forest_weight(n, edges)
    if O.n_subsets(n, edges) <= ENUM3:
        we, c2, _ = O.enum_forest_weight(n, edges)
        if we != wd or c2 != c:
            raise AssertionError(f"oracles disagree on n={n} edges={edges}: enumeration {we}/{c2}, dense prim {wd}/{c}")
    return c, wd


def present(n, edges0, rng, acc, rust):
    from solvor.types import Status
    C = base()
    edges, mode = retype_weights(rng, edges0, rng.choice(WEIGHT_MODES))
    c, wmin = oracle3(n, edges)
    acc.graphs += 1
    r3 = acc.r3
    r3["graphs"] += 1
    r3["weights:" + mode] += 1
    m_real = sum(1 for e in edges if e[0] != e[1])
    objs = {}

    def record(case, res, exc, lab, frame):
        acc.evals += 1
        bad = C.judge(case, res, exc, lab, n, edges, c, wmin) + frame
        for obl, detail in bad:
            name = f"C13/{case['fn']}/{obl}"
            acc.per_obl[name] += 1
            if acc.per_obl[name] <= 4:
                acc.viol.append((name, case, describe(case) + detail))
        if res is not None and res.status != Status.INFEASIBLE and case["fn"] not in objs:
            objs[case["fn"]] = (case, res.objective)

    with cpu_guard(CPU_BUDGET):
        for kc in kruskal_cases(n, edges, mode, rng, rust):
            res, exc, lab, frame = run_case(kc, repeat=True)
            r3["kruskal:" + ("python" if kc["backend"] == "python" else "default=" + kc["default_is"])] += 1
            record(kc, res, exc, lab, frame)
        pc0, lab, ref = prim_base_case(n, edges, mode, rng)
        r3["labels:" + pc0["universe"]] += 1
        r3["graph-as:" + pc0["outer"]] += 1
        for k in set(pc0["inner"]):
            r3["adjacency-as:" + k] += 1
        if pc0["alias"]:
            r3["with-equal-but-differently-typed-spellings"] += 1
        if any(x is None for x in lab):
            r3["graphs-with-a-node-labelled-None"] += 1
        if any(isinstance(x, tuple) and len(x) == 2 and x[0] in set(lab) for x in lab):
            r3["graphs-with-a-pair-node-whose-first-entry-is-a-node"] += 1
        if any(not x for x in lab):
            r3["graphs-with-a-falsy-node-label"] += 1
        starts = list(range(n)) if n <= 6 else rng.sample(range(n), 3)
        for k, st in enumerate([None] + starts):
            pc = dict(pc0)
            if st is not None:
                if lab[st] is None:
                    r3["explicit-start-skipped:start=None-means-default"] += 1
                    continue
                pc["start"] = {"at": st, "as": P.enc(ref(st))}
            res, exc, lb, frame = run_case(pc, repeat=k < 2)
            record(pc, res, exc, lb, frame)
    if c == 1 and len(objs) == 2 and objs["kruskal"][1] != objs["prim"][1]:
        name = "C13/kruskal+prim/ensures:agree-on-total-weight"
        acc.per_obl[name] += 1
        if acc.per_obl[name] <= 4:
            acc.viol.append((name, {"fn": "both", "r3": True, "kruskal": objs["kruskal"][0], "prim": objs["prim"][0]},
                             f"kruskal {objs['kruskal'][1]!r} vs prim {objs['prim'][1]!r} (minimum {wmin})"))
    if m_real > n - c:  # non-trivial by the rule of checks/C13.py; distinct = (graph as passed, presentation)
        acc.keys.add(hash(("P", n, repr(edges), repr(pc0["labels"]), repr(pc0["nbrs"]), tuple(pc0["keys"]), pc0["outer"],
                           tuple(pc0["inner"]))))
        if not acc.samples:
            acc.samples.append(pc0)


# ------------------------------------------------------------------ structural generators (those of checks/C13.py)
ENUM_SCOPES = (("A", 2, 3, (-1, 0, 1, 2)), ("A", 3, 3, (1, 2)), ("A", 4, 3, (1,)), ("B", 4, (1, 2)))


def enum_graphs(kind, n, x, W=None):
    C = base()
    if kind == "A":
        types = C.edge_types(n, W)
        for m in range(0, x + 1):
            for idx in itertools.combinations_with_replacement(range(len(types)), m):
                yield [types[i] for i in idx]
    else:
        W = x
        pairs = [(u, v) for u in range(n) for v in range(u + 1, n)]
        for assign in itertools.product(range(len(W) + 1), repeat=len(pairs)):
            yield [(pairs[i][0], pairs[i][1], W[a - 1]) for i, a in enumerate(assign) if a]


def specs(quick, seed):
    """chunks ("P", ...) for checks/C13.work"""
    out = []
    for sc in ENUM_SCOPES:
        out.append(("P", "enum", sc, seed, 0 if quick else 3))
    plan = {"small": 1000, "sparse": 300, "disconnected": 400, "unionfind": 300, "numeric": 300, "dense": 24}
    if not quick:
        plan = {k: 8 * v for k, v in plan.items()}
    for fam, cnt in plan.items():
        step = 8 if fam == "dense" else 100
        for lo in range(0, cnt, step):
            out.append(("P", "R", fam, seed, lo, min(cnt, lo + step)))
    return out, plan


def work_present(chunk):
    use_repo()
    C = base()
    from solvor.rust import rust_available
    rust = bool(rust_available())
    acc = C.Acc()
    acc.r3 = Counter()
    t0 = time.process_time()
    if chunk[1] == "enum":
        _, _, sc, seed, extra = chunk
        kind, n = sc[0], sc[1]
        gen = enum_graphs(kind, n, sc[2], sc[3] if kind == "A" else None)
        for gi, edges in enumerate(gen):
            for rep in range(1 + extra):  # thorough: several presentations of every enumerated graph
                rng = random.Random(f"{seed}/P/enum/{sc}/{gi}/{rep}")
                present(n, edges, rng, acc, rust)
    else:
        _, _, fam, seed, lo, hi = chunk
        for i in range(lo, hi):
            rng = random.Random(f"{seed}/P/R/{fam}/{i}")
            n, edges = C.FAMILIES[fam](rng)
            present(n, edges, rng, acc, rust)
    d = acc.data()
    acc.r3["cpu_ms"] = int(1000 * (time.process_time() - t0))
    d["r3"] = dict(acc.r3)
    return d


# ------------------------------------------------------------------ replay
def case_graph(case):
    """(n, undirected edge list in index space) of a round-3 case"""
    if case["fn"] == "kruskal":
        return case["n"], [tuple(e) for e in case["edges"]]
    lab = [P.dec(x) for x in case["labels"]]
    back = {l: i for i, l in enumerate(lab)}
    n = len(lab)
    adj = [[[back[P.dec(x)], w] for x, w in a] for a in case["nbrs"]]
    return base().case_graph({"fn": "prim", "adj": adj})


def replay(rec) -> int:
    use_repo()
    C = base()
    case = rec["case"]
    cases = [case["kruskal"], case["prim"]] if case["fn"] == "both" else [case]
    bad = 0
    objs = []
    for cs in cases:
        n, edges = case_graph(cs)
        c, wmin = oracle3(n, edges)
        res, exc, lab, frame = run_case(cs, repeat=True)
        out = C.judge(cs, res, exc, lab, n, edges, c, wmin) + frame
        if cs["fn"] == "prim":
            g, _ = build_prim(cs)
            print(f"prim graph ({type(g).__name__}): {dict(g)!r}")
        else:
            print(f"kruskal({cs['n']}, {[tuple(e) for e in cs['edges']]!r}, allow_forest={cs['allow_forest']}"
                  + (", backend='python')" if cs["backend"] == "python" else f")  # default back end = {cs['default_is']}"))
        print(f"replay {cs['fn']} {describe(cs)}: n={n} components={c} minimum={wmin} -> "
              f"{'exception ' + repr(exc) if exc else (res.status.name, res.objective, res.solution)}")
        for o, d in out:
            print(f"  violated C13/{cs['fn']}/{o}: {d}")
        bad += len(out)
        if res is not None:
            objs.append(res.objective)
    if case["fn"] == "both" and len(objs) == 2 and objs[0] != objs[1]:
        print(f"  violated C13/kruskal+prim/ensures:agree-on-total-weight: {objs}")
        bad += 1
    print("replay:", "still violates" if bad else "no violation")
    return 1 if bad else 0

#!/bin/bash
# Offline build of the verification venv (CPython 3.12 + z3/cvc5/crosshair/deal/icontract/jsonschema).
set -e
cd "$(dirname "$0")"
if [ ! -x .venv/bin/python ] || ! .venv/bin/python -c "import z3, cvc5, jsonschema" 2>/dev/null; then
  rm -rf .venv
  /venv/bin/python -m venv .venv
  PIP_NO_INDEX=1 .venv/bin/pip install -q --no-index --find-links /opt/veriftools/wheels z3-solver cvc5 crosshair-tool deal icontract jsonschema hypothesis
  SP=$(.venv/bin/python -c "import site; print(site.getsitepackages()[0])")
  echo "import site; site.addsitedir('/venv/lib/python3.12/site-packages')" > "$SP/zz_repo_deps.pth"
fi
.venv/bin/python -c "import z3, cvc5, jsonschema; print('venv ok', z3.get_version_string())"

"""developer helper: try a goal with only the hypotheses that mention given keywords"""
import sys, time, os
sys.path.insert(0, os.path.dirname(os.path.dirname(os.path.abspath(__file__))))
import z3, importlib
from pyvc.spec import REG
from pyvc.symexec import Executor
from pyvc.source import locate
importlib.import_module(sys.argv[1])
sp = REG.fns[sys.argv[2]]
m, fn, cls = locate(sp.file, sp.qualname)
ex = Executor(REG, sp, m, fn, cls)
keys = sys.argv[4].split(",")
for ob in ex.run():
    if sys.argv[3] in ob.name and ob.expect == "valid":
        hs = [h for h in ob.hyps if any(k in h.sexpr() for k in keys)]
        print(len(hs), "of", len(ob.hyps))
        own = z3.Context(); s = z3.Solver(ctx=own); s.set("rlimit", 30000000)
        for h in hs: s.add(h.translate(own))
        s.add(z3.Not(ob.goal).translate(own))
        c0 = time.process_time(); r = s.check(); print(r, round(time.process_time() - c0, 2))
        if len(sys.argv) > 5:
            for h in hs: print(h.sexpr()[:600]); print()

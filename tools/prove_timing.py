import sys, json, time
sys.path.insert(0,'/verif')
from pyvc.run import prove_functions
from pyvc.spec import REG
import importlib
mod=sys.argv[1]; importlib.import_module(mod)
pat=sys.argv[2]
keys=[k for k in REG.fns if pat in k]
rep=prove_functions([mod], keys, procs=4)
for o in sorted(rep['obligations'], key=lambda o:-o.get('time',0))[:6]:
    print(o['status'], round(o.get('time',0),2), o['name'])

def alias_mut(a: list[int]) -> int:
    b = a
    b.append(1)
    return len(a)


def elem_alias(m: list[list[int]]) -> int:
    row = m[0]
    row[0] = 7
    return m[0][0]


def loop_alias(m: list[list[int]]) -> int:
    for row in m:
        row.append(1)
    return len(m)


def fine_copy(a: list[int]) -> int:
    b = a[:]
    b.append(1)
    return len(a)


class Acc:
    def __init__(self):
        self.n = 0

    def __call__(self, x: int) -> int:
        self.n += 1
        return x


def loop_calls_object(k: int) -> int:
    acc = Acc()
    for i in range(k):
        acc(i)
    return acc.n


def wrong_sum(xs: list[int]) -> int:
    total = 0
    for x in xs:
        total += x
    return total + 1


def _less(a, b, slack=0):
    """straight-line helper without a contract: executed in place by the prover"""
    if a + slack < b:
        return True
    return False


def _less_wrong(a, b):
    return a < b and b - a > 1


def smaller_inlined(x: int, y: int) -> int:
    if _less(x, y):
        return x
    return y


def smaller_inlined_wrong(x: int, y: int) -> int:
    if _less_wrong(x, y):
        return x
    return y


def pick_name(req):
    if req == "python":
        return "python"
    return "rust"


def pick_name_wrong(req):
    if req == "pyton":
        return "python"
    return "rust"

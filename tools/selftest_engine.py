#!/usr/bin/env python3
"""Engine self-test (hygiene): crafted functions on which the prover MUST refuse or fail.
 - aliasing: two names for one list, element alias, loop-target alias  -> refused (outside the subset)
 - copy before mutation                                               -> proved
 - a loop that calls a callable object and a false invariant about it -> must NOT be proved (write-set of calls)
 - an off-by-one result                                               -> must NOT be proved (failed or unknown)
 - a contract-less straight-line helper is inlined: right one proved, wrong one refuted with a counterexample
 - interned string literals: a dispatch on the right literal is proved, on a misspelt literal refuted
Run by ./check C20 on every tier; a wrong outcome is a checker defect (exit 3)."""
import os, subprocess, sys, json
V = os.path.dirname(os.path.dirname(os.path.abspath(__file__)))
CODE = r'''
import sys, json
sys.path.insert(0, %r)
from pyvc.run import prove_functions
from pyvc.spec import REG
import specs._selftest
rep = prove_functions(["specs._selftest"], list(REG.fns), procs=2)
out = {}
for o in rep["obligations"]:
    fn = o["name"].split("::")[1].split("/")[0]
    out.setdefault(fn, []).append(o["status"])
print(json.dumps(out))
''' % V


def run():
    env = dict(os.environ, VERIF_REPO=os.path.join(V, "tools", "selftest_src"), PYVC_TIMEOUT_MS="4000")
    r = subprocess.run([sys.executable, "-c", CODE], capture_output=True, text=True, env=env, timeout=300)
    try:
        out = json.loads(r.stdout.strip().splitlines()[-1])
    except Exception:
        return [f"self-test did not run: {r.stderr[-300:]}"]
    bad = []
    for fn in ("alias_mut", "elem_alias", "loop_alias"):
        if out.get(fn) != ["drift"]:
            bad.append(f"{fn}: expected refusal, got {out.get(fn)}")
    if set(out.get("fine_copy", [])) != {"discharged"}:
        bad.append(f"fine_copy: {out.get('fine_copy')}")
    if all(s == "discharged" for s in out.get("loop_calls_object", ["discharged"])):
        bad.append("loop_calls_object: a false postcondition was proved (write set of object calls)")
    if all(s == "discharged" for s in out.get("wrong_sum", ["discharged"])):
        bad.append(f"wrong_sum: an off-by-one result was proved: {out.get('wrong_sum')}")
    if set(out.get("smaller_inlined", [])) != {"discharged"}:
        bad.append(f"smaller_inlined (helper inlining): {out.get('smaller_inlined')}")
    if "failed" not in out.get("smaller_inlined_wrong", []):
        bad.append(f"smaller_inlined_wrong: a wrong inlined helper was not refuted: {out.get('smaller_inlined_wrong')}")
    if set(out.get("pick_name", [])) != {"discharged"}:
        bad.append(f"pick_name (interned string literals): {out.get('pick_name')}")
    if "failed" not in out.get("pick_name_wrong", []):
        bad.append(f"pick_name_wrong: a misspelt string literal was not refuted: {out.get('pick_name_wrong')}")
    return bad


if __name__ == "__main__":
    b = run()
    print("engine self-test:", "ok" if not b else b)
    sys.exit(1 if b else 0)

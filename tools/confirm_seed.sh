#!/bin/bash
# tools/confirm_seed.sh <Cxx> <mN> [skiptests]   confirm a seeded mutant independently and record it under seeded/<Cxx>_<mN>/
id=$1; m=$2; skip=$3
src=/tmp/seed_out/$id/$m
out=/verif/seeded/${id}_$m
wt=/tmp/cf_${id}_$m
[ -f $src/patch.diff ] || { echo "no patch $src"; exit 2; }
rm -rf $wt; git -C /repo worktree add -q --detach $wt HEAD || exit 2
cp /repo/solvor/_solvor_rust.cpython-312-x86_64-linux-gnu.so $wt/solvor/ 2>/dev/null
mkdir -p $out; cp $src/patch.diff $src/demo.py $out/; cp $src/notes.md $out/ 2>/dev/null
cd $wt
timeout 120 /venv/bin/python $out/demo.py > $out/demo_clean.log 2>&1; clean=$?
if ! git apply $out/patch.diff 2> $out/apply.log; then echo "$id $m: patch does not apply on current HEAD"; applies=false; else applies=true; fi
timeout 120 /venv/bin/python $out/demo.py > $out/demo_mutant.log 2>&1; mut=$?
tests="skipped"
if [ "$applies" = true ] && [ -z "$skip" ]; then
  timeout 1800 /venv/bin/python -m pytest -q -p no:cacheprovider --timeout=900 -x --deselect tests/test_docs.py::test_mkdocs_builds tests > $out/tests_mutant.log 2>&1
  tests=$(tail -1 $out/tests_mutant.log)
fi
# detection by the check (quick tier) on the mutated tree
cd /verif; VERIF_REPO=$wt timeout 900 ./check $id --tier quick > $out/check_quick.log 2>&1; det=$?
head_commit=$(git -C /repo rev-parse --short HEAD)
python3 - <<PY
import json
json.dump({"property": "$id", "mutant": "$m", "base_commit": "$head_commit", "patch_applies": "$applies"=="true",
 "demo_exit_clean_tree": $clean, "demo_exit_mutated_tree": $mut, "existing_tests_on_mutated_tree": """$tests""",
 "check_quick_exit_on_mutated_tree": $det,
 "needs_to_manifest": open("$out/notes.md").read()[:1500] if __import__("os").path.exists("$out/notes.md") else "",
 "ran": ["demo.py on clean worktree", "git apply patch.diff", "demo.py on mutated worktree", "full pytest on mutated worktree (docs test deselected: fails on the unchanged tree too)", "VERIF_REPO=<mutated worktree> ./check $id --tier quick"]},
 open("$out/meta.json","w"), indent=1)
PY
git -C /repo worktree remove --force $wt
echo "$id $m clean=$clean mutant=$mut tests=[$tests] check_exit=$det"

#!/usr/bin/env python3
"""Records the persistent-state write sites that exist on the tree the contracts were written for."""
import json, os, sys
V = os.path.dirname(os.path.dirname(os.path.abspath(__file__)))
sys.path.insert(0, V)
from vf import frame
files = set()
for line in open(os.path.join(V, "properties.jsonl")):
    p = json.loads(line)
    files.update(f for f in p["anchors"]["files"] if f.endswith(".py"))
sites = []
for f in sorted(files):
    for s in frame.scan_file(f):
        sites.append([s["kind"], s["file"], s["func"], s["target"]])
json.dump(sites, open(os.path.join(V, "specs", "frame_whitelist.json"), "w"), indent=0)
for s in sites:
    print(s)
print(len(sites), "sites")

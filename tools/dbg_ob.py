"""developer helper: split a forall-implies-and goal into conjuncts and try each (fresh context)"""
import sys, time, os
sys.path.insert(0, os.path.dirname(os.path.dirname(os.path.abspath(__file__))))
import z3, importlib
from pyvc.spec import REG
from pyvc.symexec import Executor
from pyvc.source import locate
importlib.import_module(sys.argv[1])
sp = REG.fns[sys.argv[2]]
m, fn, cls = locate(sp.file, sp.qualname)
ex = Executor(REG, sp, m, fn, cls)
for ob in ex.run():
    if sys.argv[3] in ob.name and ob.expect == "valid":
        g = ob.goal
        print(g.sexpr()[:3000])
        print(len(ob.hyps), "hyps")
        if z3.is_quantifier(g):
            nv = g.num_vars()
            sk = [z3.Const(f"sk!{i}", g.var_sort(i)) for i in range(nv)]
            body = z3.substitute_vars(g.body(), *reversed(sk))
        else:
            body = g
        parts = []
        if z3.is_implies(body):
            ante, cons = body.arg(0), body.arg(1)
            cs = cons.children() if z3.is_and(cons) else [cons]
            parts = [(ante, c) for c in cs]
        else:
            parts = [(z3.BoolVal(True), body)]
        for ante, c in parts:
            own = z3.Context(); s = z3.Solver(ctx=own); s.set("rlimit", int(sys.argv[4]) if len(sys.argv) > 4 else 30000000)
            for h in ob.hyps: s.add(h.translate(own))
            s.add(ante.translate(own)); s.add(z3.Not(c).translate(own))
            c0 = time.process_time(); r = s.check(); c1 = time.process_time()
            print(r, round(c1 - c0, 2), c.sexpr()[:200])
        if len(sys.argv) > 5:
            for h in ob.hyps:
                t = h.sexpr()
                if any(k in t for k in sys.argv[5].split(",")):
                    print("HYP", t[:1500]); print()

#!/bin/bash
# tools/reconfirm_seed.sh <Cxx> <mN>: re-run only the detection part (demo + quick check on a scratch worktree) for a seed already recorded under seeded/<Cxx>_<mN>
id=$1; m=$2
out=/verif/seeded/${id}_$m
wt=/tmp/cf_${id}_$m
rm -rf $wt; git -C /repo worktree add -q --detach $wt HEAD || exit 2
cp /repo/solvor/_solvor_rust.cpython-312-x86_64-linux-gnu.so $wt/solvor/ 2>/dev/null; cd $wt
if ! git apply $out/patch.diff 2> $out/apply.log; then echo "$id $m: patch does not apply on current HEAD"; git -C /repo worktree remove --force $wt; exit 0; fi
timeout 120 /venv/bin/python $out/demo.py > $out/demo_mutant.log 2>&1; mut=$?
cd /verif; VERIF_REPO=$wt timeout 1500 ./check $id --tier quick > $out/check_quick.log 2>&1; det=$?
python3 - <<PY
import json
p="$out/meta.json"; d=json.load(open(p)); d["check_quick_exit_on_mutated_tree"]=$det; d["demo_exit_mutated_tree"]=$mut
d["base_commit"]="$(git -C /repo rev-parse --short HEAD)"; d["patch_applies"]=True
json.dump(d,open(p,"w"),indent=1)
PY
git -C /repo worktree remove --force $wt
echo "$id $m mutant_demo=$mut check_exit=$det"

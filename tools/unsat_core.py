import sys
sys.path.insert(0,'/verif')
import z3, importlib
from pyvc.spec import REG
from pyvc.symexec import Executor
from pyvc.source import locate
mod, key, kind = sys.argv[1], sys.argv[2], sys.argv[3]
importlib.import_module(mod)
sp=REG.fns[key]
m,fn,cls=locate(sp.file, sp.qualname)
ex=Executor(REG, sp, m, fn, cls)
obls=ex.run()
for ob in obls:
    if kind in ob.name:
        s=z3.Solver(); s.set('timeout',20000)
        ps=[]
        for i,h in enumerate(ob.hyps):
            p=z3.Bool(f'h{i}'); s.assert_and_track(h,p); ps.append((p,h))
        print(ob.name, s.check())
        core=s.unsat_core()
        for p,h in ps:
            if p in core: print('  CORE', str(h)[:400].replace('\n',' '))
        break

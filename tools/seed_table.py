#!/usr/bin/env python3
"""Regenerates section 11 of DESIGN.md (seeded changes and which check catches them) from seeded/*/meta.json."""
import glob, json, os, re
V = os.path.dirname(os.path.dirname(os.path.abspath(__file__)))
rows = []
for d in sorted(glob.glob(os.path.join(V, "seeded", "C*_m*"))):
    m = json.load(open(os.path.join(d, "meta.json")))
    log = open(os.path.join(d, "check_quick.log")).read() if os.path.exists(os.path.join(d, "check_quick.log")) else ""
    obs = []
    for line in log.splitlines():
        mm = re.match(r"\s*obligation: (\S+)", line)
        if mm and mm.group(1) not in obs:
            obs.append(mm.group(1))
    notes = m.get("needs_to_manifest", "")
    first = ""
    for ln in notes.splitlines():
        ln = ln.strip("#*- \t")
        if len(ln) > 25:
            first = ln[:150]
            break
    m["caught_by"] = obs[:4]
    json.dump(m, open(os.path.join(d, "meta.json"), "w"), indent=1)
    det = m.get("status") or {1: "caught (quick)", 0: "MISSED in quick", 2: "undecided", 3: "checker defect", 124: "check did not finish in 900 s"}.get(m.get("check_quick_exit_on_mutated_tree"), "?")
    rows.append(f"| {m['property']}/{m['mutant']} | {first.replace('|', '/')} | demo clean={m['demo_exit_clean_tree']} mutant={m['demo_exit_mutated_tree']}; tests: {m['existing_tests_on_mutated_tree'][:40]} | {det} | {'; '.join(o.split('/', 1)[1] if '/' in o else o for o in obs[:2])[:150]} |")
table = ("## 11. Seeded changes and which check catches them\n\n"
         "Produced by independent sub-agents that saw only the property text and a scratch worktree (nothing from /verif); each was then\n"
         "confirmed here by `tools/confirm_seed.sh` (demo passes on the clean tree and fails with the change, the repository's 1235 tests still pass,\n"
         "`VERIF_REPO=<mutated worktree> ./check <id> --tier quick`). Details per change: `seeded/<id>_<m>/` (patch.diff, demo.py, notes.md, meta.json, logs).\n\n"
         "| change | what it is / needs | confirmation | quick tier | first obligations that fired |\n|---|---|---|---|---|\n" + "\n".join(rows) + "\n")
p = os.path.join(V, "DESIGN.md")
s = open(p).read()
if "## 11. Seeded changes" in s:
    s = s[:s.index("## 11. Seeded changes")]
s = s.rstrip() + "\n\n---------------------------------------------------------------------------------\n\n" + table
open(p, "w").write(s)
print(len(rows), "rows")

"""developer helper: python tools/one_obligation.py specs.<module> <function key> <obligation substring> [rlimit]  - one obligation in a fresh z3 context"""
import sys, time, os
sys.path.insert(0, os.path.dirname(os.path.dirname(os.path.abspath(__file__))))
import z3, importlib
from pyvc.spec import REG
from pyvc.symexec import Executor
from pyvc.source import locate
importlib.import_module(sys.argv[1])
sp = REG.fns[sys.argv[2]]
m, fn, cls = locate(sp.file, sp.qualname)
ex = Executor(REG, sp, m, fn, cls)
for ob in ex.run():
    if sys.argv[3] in ob.name and ob.expect == "valid":
        own = z3.Context(); s = z3.Solver(ctx=own); s.set("rlimit", int(sys.argv[4]) if len(sys.argv) > 4 else 60000000)
        for h in ob.hyps: s.add(h.translate(own))
        s.add(z3.Not(ob.goal).translate(own))
        c0 = time.process_time(); r = s.check(); c1 = time.process_time()
        st = s.statistics(); rc = [st.get_key_value(k) for k in st.keys() if k == 'rlimit count']
        print(ob.name, r, 'cpu', round(c1 - c0, 2), 'rlimit', rc)

"""developer helper: which single hypothesis, added to a sufficient core, turns the proof unknown (matching-loop hunting)"""
import sys, time, os
sys.path.insert(0, os.path.dirname(os.path.dirname(os.path.abspath(__file__))))
import z3, importlib
from pyvc.spec import REG
from pyvc.symexec import Executor
from pyvc.source import locate
importlib.import_module(sys.argv[1])
sp = REG.fns[sys.argv[2]]
m, fn, cls = locate(sp.file, sp.qualname)
ex = Executor(REG, sp, m, fn, cls)
keys = sys.argv[4].split(",")
def chk(hs, goal, rl=3000000):
    own = z3.Context(); s = z3.Solver(ctx=own); s.set("rlimit", rl)
    for h in hs: s.add(h.translate(own))
    s.add(z3.Not(goal).translate(own))
    r = s.check(); st = s.statistics()
    return str(r), [st.get_key_value(k) for k in st.keys() if k == 'rlimit count'][0]
for ob in ex.run():
    if sys.argv[3] in ob.name and ob.expect == "valid":
        core = [h for h in ob.hyps if any(k in h.sexpr() for k in keys)]
        rest = [h for h in ob.hyps if not any(k in h.sexpr() for k in keys)]
        print(chk(core, ob.goal))
        for i, h in enumerate(rest):
            r, c = chk(core + [h], ob.goal)
            if r != "unsat" or c > 200000:
                print(i, r, c, h.sexpr()[:700]); print()
        # cumulative
        acc = list(core)
        for i, h in enumerate(rest):
            acc.append(h)
            r, c = chk(acc, ob.goal)
            if r != "unsat":
                print("cumulative breaks at", i, c, h.sexpr()[:700]); acc.pop()
        print("---- cumulative cost")
        acc = list(core)
        for i, h in enumerate(rest):
            acc.append(h)
            r, c = chk(acc, ob.goal, 20000000)
            print(i, r, c, h.sexpr()[:150].replace("\n", " "))
            if r != "unsat": acc.pop()

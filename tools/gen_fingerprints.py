#!/usr/bin/env python3
"""Records the statement skeleton of every function under contract (on the tree the proofs were established
on).  At check time a proof that no longer goes through on a function whose skeleton CHANGED is reported as
spec drift (contract must be re-attached), not as a violation; on an unchanged skeleton it is a violation."""
import importlib, json, os, sys
V = os.path.dirname(os.path.dirname(os.path.abspath(__file__)))
sys.path.insert(0, V)
from pyvc.spec import REG
from pyvc.source import locate, skeleton, text_hash
for m in sorted(f[:-3] for f in os.listdir(os.path.join(V, "specs")) if f.endswith(".py") and not f.startswith("_")):
    importlib.import_module("specs." + m)
out = {}
out_text = {}
for k, sp in REG.fns.items():
    if sp.trusted:
        continue
    _, fn, _ = locate(sp.file, sp.qualname)
    out[k] = skeleton(fn)
    out_text[k] = text_hash(fn)
json.dump(out, open(os.path.join(V, "specs", "fingerprints.json"), "w"), indent=0, sort_keys=True)
# exact text of the functions the contracts were attached to (vacuity on a function whose text CHANGED is a contract / code
# mismatch to be re-attached, i.e. undecided; on the unchanged text it is a defect of the checker)
json.dump(out_text, open(os.path.join(V, "specs", "fingerprints_text.json"), "w"), indent=0, sort_keys=True)
print(len(out), "fingerprints")

import sys, time
sys.path.insert(0,'/verif')
import z3, importlib
from pyvc.spec import REG
from pyvc.symexec import Executor
from pyvc.source import locate
importlib.import_module(sys.argv[1])
sp=REG.fns[sys.argv[2]]
m,fn,cls=locate(sp.file, sp.qualname)
ex=Executor(REG, sp, m, fn, cls)
obls=ex.run()
res=[]
for ob in obls:
    if ob.expect!="valid": continue
    s=z3.Solver(); s.set("rlimit", 40000000); s.add(*ob.hyps); s.add(z3.Not(ob.goal))
    c0=time.process_time(); r=s.check(); c1=time.process_time()
    res.append((c1-c0, ob.name.split('/')[-1], str(r)))
res.sort(reverse=True)
for x in res[:12]: print(round(x[0],2), x[1], x[2])
print("total cpu", round(sum(x[0] for x in res),1), "n", len(res))

"""developer helper: python tools/prove_spec.py specs.<module> [function-key substring]   (PYVC_ONLY=<obligation substrings> filters)"""
import sys, json, time, os
sys.path.insert(0, os.path.dirname(os.path.dirname(os.path.abspath(__file__))))
from pyvc.run import prove_functions
from pyvc.spec import REG
import importlib
mod = sys.argv[1]; importlib.import_module(mod)
pat = sys.argv[2] if len(sys.argv) > 2 else ''
keys = [k for k in REG.fns if pat in k]
t = time.time()
rep = prove_functions([mod], keys, procs=14)
from collections import Counter
print(Counter(o['status'] for o in rep['obligations']), 'wall', round(time.time() - t, 1), 'max', max([o.get('time', 0) for o in rep['obligations']] or [0]))
for o in rep['obligations']:
    if o['status'] != 'discharged':
        print(o['status'], o['name'], round(o.get('time') or 0, 1), (o.get('detail') or '')[:400].replace('\n', ' '), json.dumps(o.get('counterexample') or o.get('candidate'))[:300])
print(str(rep['defects'])[-1500:], rep['hygiene'])

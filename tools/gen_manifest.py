#!/usr/bin/env python3
"""Regenerates MANIFEST.json from the table below (claimed = a checks/<id>.py exists)."""
import json, os
V = os.path.dirname(os.path.dirname(os.path.abspath(__file__)))
BOUNDED_NOTE = ("bounded part: only the enumerated / sampled inputs are decided; oracles are trusted. proved part: "
                "own VC generator (pyvc) over the real AST + z3/cvc5; semantic assumptions A1-A10 of DESIGN 3.6; "
                "builtin contract table; value semantics for lists")
T = {
 "C01": ("exploration", "solve_sat top-level contract (every returned assignment is a model, agrees with assumptions, solutions distinct) evaluated on the real function over exhaustive tiny CNFs x configurations and seeded random/structured CNFs against brute force / z3; helper functions lit_var/lit_sign/lit_neg proved. CDCL invariants (2WL, 1-UIP) are out of deductive reach here, so the property itself is only bounded.", "contract RAC + small-scope exhaustive enumeration; pyvc obligations on helpers"),
 "C02": ("exploration", "solve_sat verdict/termination contract (INFEASIBLE only if no model, model whenever one exists under generous budgets, always returns) on the same case families incl. UNSAT families where learning and restarts fire; luby() proved to terminate and to return a power of two in [1, i] for all i >= 1 (the original code failed exactly this obligation: replayed input i=2).", "contract RAC + enumeration; pyvc proof of luby (loop invariant + lexicographic variant)"),
 "C03": ("exploration", "solve_lp / solve_lp_interior contracts against an exact rational LP oracle with checked certificates, exhaustive small LPs + degenerate families. Verdict exactness is floating-point behaviour: not provable in this family (DESIGN 8).", "contract RAC vs exact Fraction simplex oracle"),
 "C04": ("exploration", "solve_milp contract (feasible, integral, objective = c.x, OPTIMAL/INFEASIBLE/UNBOUNDED verdicts, option independence) against integer-box enumeration with exact LP.", "contract RAC vs exhaustive integer enumeration"),
 "C05": ("exploration", "Model.solve contract (domains, every added constraint under reference semantics, INFEASIBLE only if none, solver agreement) over the constructor grammar against brute force.", "contract RAC vs brute-force CP semantics"),
 "C06": ("exploration", "CNF of SATEncoder has exactly the models of the CP problem: clause list captured, all models enumerated independently, projected and compared with brute-force CP solutions.", "all-SAT model-set comparison on captured clause lists"),
 "C07": ("exploration", "solve_exact_cover contract (exact covers, find_all = set of all covers, INFEASIBLE iff none, input unchanged, repeatable) exhaustive over small 0/1 matrices; cover/uncover inverse contract on the private helpers.", "contract RAC, exhaustive small scope"),
 "C08": ("exploration", "max_flow contract (capacity, conservation, value = min cut) vs brute-force min cut.", "contract RAC vs min-cut oracle"),
 "C09": ("exploration", "min_cost_flow / network_simplex / solve_assignment contracts vs exact successive-shortest-path oracle with potentials.", "contract RAC vs certified min-cost-flow oracle"),
 "C10": ("exploration", "solve_hungarian: optimality certificate proved deductively for all matrices (403 obligations; two paper lemmas close the argument, termination not proved); the top-level contract (matching shape, objective = sum, optimal for min and max) is also executed on enumerated / ladder / history inputs vs exact oracles.", "pyvc proof of the dual certificate + contract RAC vs exact assignment oracles"),
 "C11": ("exploration", "shortest-path solver contracts (distance = delta, INFEASIBLE/UNBOUNDED verdicts, path validity, mutual agreement) vs exact oracle on all small digraphs/grids.", "contract RAC vs exact shortest-path oracle"),
 "C12": ("exploration", "back-end selection get_backend proved deductively for every request value and for an installation with or without the extension (the answer is 'rust' or 'python', and 'rust' only when the extension is importable; the bounded no-extension family observes the same for the request values it tries; 8 obligations). adapter(args) ~ python_impl(args) for the nine accelerated functions is decided by executing the contract with the extension rebuilt from rust/; Rust kernels are external (no Rust verifier installed).", "pyvc proof of the dispatch contract + differential contract RAC python vs rebuilt rust extension"),
 "C13": ("exploration", "kruskal/prim contracts (spanning, acyclic, objective, minimal, statuses) vs spanning-tree enumeration / independent Prim.", "contract RAC vs MST oracles"),
 "C14": ("exploration", "topological_sort (Kahn) proved deductively for all node lists of distinct labels and all neighbour functions: OPTIMAL comes with a permutation of the nodes in which every offered edge between nodes points forward, INFEASIBLE with a non-empty set of nodes each having an offered edge from another of them (204 obligations; termination not proved). strongly_connected_components, condense and the *_edges wrappers have no contract within reach (closures over recursion): their contracts are executed vs Boolean transitive closure on all small digraphs, ladders and presentation families.", "pyvc proof of Kahn's counting invariant + contract RAC vs transitive-closure oracle"),
 "C15": ("exploration", "definitions of articulation points, bridges, k-cores, PageRank equation, Louvain partition/modularity as executable postconditions on all small graphs.", "contract RAC vs brute-force definitions"),
 "C16": ("exploration", "solve_knapsack: DP proved deductively against the knapsack recursion for all inputs (370 obligations, int- and float-typed variants; Bellman's principle is a paper lemma); solve_knapsack / solve_bin_pack contracts executed vs exhaustive enumeration, DP and planted-packing oracles.", "pyvc proof of the DP + contract RAC vs brute force / certifying oracles"),
 "C17": ("exploration", "solve_cg / solve_bp contracts (patterns fit, demands met, objective = rolls >= OPT, OPTIMAL only if = OPT) vs exact DP optimum.", "contract RAC vs exact cutting-stock DP"),
 "C18": ("exploration", "job_shop._dispatch proved to build a valid and complete schedule for every rule and seed; job-shop schedule validity and VRP state contract executed after every operator call and for the final result.", "pyvc proof of the schedule builder + contract RAC with operator-level monitoring"),
 "C19": ("exploration", "book-keeping contract of the twelve search heuristics via a recording proxy (objective = f(solution), best of evaluated, evaluations = calls, bounds, mirror, reproducibility).", "contract RAC with recording proxy on adversarial objectives"),
 "C20": ("proof", "every method of UnionFind and FenwickTree under contract; all obligations generated from the current source are discharged for all inputs/iterations (ghost representative map and potential; Fenwick bit lemmas at BV64); the refinement meta-theorem M0 lifts per-method obligations to all histories. A bounded model-based cross-check runs alongside and is not counted.", "deductive: pyvc VC generation from the real AST + z3 (BV64 lemmas), counter-model replay on the real code"),
}
PROVED = {
 "C01": "proved: lit_var/lit_sign/lit_neg, solve_sat.unassign_to, solve_sat.assign (trail consistency), solve_sat.reduce_db / add_watch (every clause with score <= 3, hence every blocking clause, survives the reduction of a database of any size)",
 "C02": "proved: luby (termination, value), solve_sat.unassign_to/assign, reduce_db/add_watch",
 "C03": "proved: check_matrix_dims, simplex._extract", "C04": "proved: _most_fractional, _compute_gap, _is_feasible (the acceptance test of every heuristic incumbent: True only for a point that is non-negative, integral on the designated entries and satisfies every row within eps), check_matrix_dims",
 "C06": "proved for all Boolean assignments: _encode_eq_const/_ne_const/_ne_var/_at_most_one/_exactly_one",
 "C09": "proved: network_simplex._residual, network_simplex._find_join (the join is a common ancestor of both end points at the stated depth distance, and the walk terminates; tree facts of the caller as entry precondition)",
 "C10": "proved: solve_hungarian optimality certificate (dual-feasible potentials of the zero-padded matrix, tight row-perfect matching, assignment = its restriction, objective = sum of the original entries, no arithmetic on +-inf), assignment_cost; weak duality and the padding argument are paper lemmas",
 "C11": "proved: dijkstra and astar (weight 1, consistent heuristic) real path AND optimality / infeasibility certificate, bfs real path AND minimal-length certificate by levels, dfs real path AND completeness certificate (INFEASIBLE only with a closed goal-free visited set), bellman_ford distance certificate, reconstruct_path, _reconstruct_indexed; no arithmetic on +-inf under finite weights",
 "C12": "proved: rust.get_backend (answers 'rust' or 'python', 'rust' only when the extension is importable, for every request value; rust_available by assumed contract); adapters and kernels bounded / external only",
 "C13": "proved: kruskal structure via the UnionFind contract, prim grows one tree of input edges with objective = weight sum, check_positive, check_edge_nodes (minimality: bounded only)",
 "C14": "proved: topological_sort (answer = permutation of the nodes with every offered edge forward, or INFEASIBLE with a closed set of never-output nodes each having a never-output predecessor; in_degree == number of pending edge occurrences as loop invariant); 'forward order => acyclic' and 'such a set => cycle' are paper lemmas; SCC / condense bounded only",
 "C15": "proved: kcore filter (kcore_decomposition by assumed contract)",
 "C16": "proved: solve_knapsack (indices distinct and in range, objective = sum of values, weight test at every OPTIMAL return, DP value = the knapsack recursion KN, integer data unscaled), _to_int_capacity, check_non_negative; Bellman's principle is a paper lemma; solve_bin_pack structural clauses (every item in one bin 0..k-1, no bin overfull beyond 1e-9, load = capacity - remaining, status rule); its 11/9 bound and minimality claims bounded only",
 "C17": "proved: bp._most_fractional, bp._build_solution",
 "C18": "proved: job_shop._dispatch (valid and complete schedule for every rule and seed), _compute_makespan",
 "C19": "proved: Evaluator, anneal, tabu_search, lns, alns, evolve (book-keeping for all objectives, callbacks, seeds, iteration counts)",
}
NOTES = {"C20": "trusted: VC generator pyvc (own, ~4.8 kLoC), z3, builtin contract table entries used, A1/A2/A9, M0; component_sizes/get_components and the list-constructor of FenwickTree: see evidence (proved or bounded as stated there)"}
m = json.load(open(os.path.join(V, "MANIFEST.json")))
checks, na = [], []
for pid in sorted(T):
    level, text, tech = T[pid]
    if os.path.exists(os.path.join(V, "checks", pid + ".py")) and pid in set(os.environ.get("CLAIM", "").split(",")) | set(json.load(open(os.path.join(V, "tools", "claimed.json")))):
        checks.append({"property_id": pid, "quick_cmd": f"./check {pid} --tier quick", "thorough_cmd": f"./check {pid} --tier thorough",
                       "evidence_file": f"evidence/{pid}.json", "replay_cmd_template": f"./check {pid} --replay {{path}}",
                       "engine": "pyvc+rac", "level_claimed": {"category": level, "text": text, "design_ref": f"DESIGN.md 7 {pid}"},
                       "level_note": NOTES.get(pid, (PROVED.get(pid, "no function of this property is proved") + ". " + BOUNDED_NOTE)), "technique": tech})
    else:
        na.append({"property_id": pid, "reason": "check not yet registered in this session (under construction); see DESIGN.md 7 " + pid})
m["checks"], m["not_applicable"] = checks, na
m["engines"] = [{"name": "pyvc+rac", "path": "pyvc/ (prover), checks/ + oracles/ (bounded back end), specs/ (contracts)",
                 "serves_properties": [c["property_id"] for c in checks],
                 "kind_free_text": "contract-based deductive verification: sidecar contracts on the real functions, VCs generated from /repo's AST on every run and discharged by z3/cvc5; the same top-level contracts executed on enumerated inputs as the bounded stand-in"}]
json.dump(m, open(os.path.join(V, "MANIFEST.json"), "w"), indent=1)
print("claimed:", [c["property_id"] for c in checks])

"""Contract for solvor/floyd_warshall.py::floyd_warshall (C11): the distance-matrix certificate.

Proved for all inputs (finite weights; `ext_inf`: the code's `+` is modelled IEEE-like, inf + x == inf, and -inf is never an operand):
at every return that is not UNBOUNDED
  * diagonal entries are 0, every edge weight bounds its entry (both directions when not directed),
  * the matrix is CLOSED: dist[i][j] <= dist[i][k] + dist[k][j] for all i, j, k  (triangle inequality with +inf absorbing),
  * every finite entry is the length of a walk (ghost relation Reach3 given by its closure rules);
UNBOUNDED is returned only with a closed walk of negative length (a negative cycle exists).
Paper lemma: a closed matrix with zero diagonal that every edge weight bounds is a lower bound on every walk length (induction on
the walk); with the walk witnesses the finite entries are exactly the shortest distances and +inf means unreachable.
The invariant of the triple loop is purely algebraic: after phase k the matrix is closed through every k' < k, or some diagonal
entry is negative (the four-case argument needs dist[k][k] >= 0, i.e. no negative cycle seen so far).
"""
from pyvc.spec import REG, LoopSpec
import specs.search  # noqa: Result
import specs.mst  # noqa: check_positive, check_edge_nodes

F = "solvor/floyd_warshall.py"
E = "list[tuple[int,int,real]]"
M = "list[list[real]]"
REG.ghostfn("Reach3", ["int", "int", "real"], "bool")  # Reach3(i, j, d): there is a walk from i to j of length d

SHAPE = ["n == n_nodes", "n >= 1", "len(dist) == n", "forall(r, implies(0 <= r < n, len(dist[r]) == n), trig=dist[r])",
         "forall(a, b, implies(0 <= a < n and 0 <= b < n, -inf() < dist[a][b] and dist[a][b] <= inf()), trig=dist[a][b])"]
DIAG = "forall(a, implies(0 <= a < n, dist[a][a] <= 0), trig=dist[a][a])"
WALK = "forall(a, b, implies(0 <= a < n and 0 <= b < n and dist[a][b] < inf(), Reach3(a, b, dist[a][b])), trig=dist[a][b])"
EDGES = "forall(e, implies(0 <= e < {hi}, dist[edges[e][0]][edges[e][1]] <= edges[e][2] and (directed or dist[edges[e][1]][edges[e][0]] <= edges[e][2])), trig=edges[e])"
NEG = "exists(t, 0 <= t < n and dist[t][t] < 0)"
CLOSED = "(" + NEG + " or forall(a, b, c, implies(0 <= a < n and 0 <= b < n and 0 <= c < {hi}, dist[a][b] <= xadd(dist[a][c], dist[c][b])), trig=((dist[a][c], dist[c][b]),)))"
UPD = "(dist[a][b] == (D0[a][b] if D0[a][b] <= xadd(D0[a][k], D0[k][b]) else xadd(D0[a][k], D0[k][b])))"
NEWD = "min(D0[{x}][{y}], xadd(D0[{x}][k], D0[k][{y}]))"
D0FACTS = ["len(D0) == n", "forall(r, implies(0 <= r < n, len(D0[r]) == n), trig=D0[r])",
           "forall(a, b, implies(0 <= a < n and 0 <= b < n, -inf() < D0[a][b] and D0[a][b] <= inf()), trig=D0[a][b])",
           "forall(a, implies(0 <= a < n, D0[a][a] <= 0), trig=D0[a][a])",
           "(exists(t, 0 <= t < n and D0[t][t] < 0) or forall(a, b, c, implies(0 <= a < n and 0 <= b < n and 0 <= c < k, D0[a][b] <= xadd(D0[a][c], D0[c][b])), trig=((D0[a][c], D0[c][b]),)))",
           "forall(a, b, implies(0 <= a < n and 0 <= b < n, dist[a][b] <= D0[a][b]), trig=dist[a][b])",
           # the algebraic heart (a fact about the snapshot only, proved once per phase at the loop entry): relaxing every entry
           # through k keeps the matrix closed through every c < k ...
           "(exists(t, 0 <= t < n and D0[t][t] < 0) or forall(a, b, c, implies(0 <= a < n and 0 <= b < n and 0 <= c < k, " + NEWD.format(x="a", y="b") + " <= xadd(" + NEWD.format(x="a", y="c") + ", " + NEWD.format(x="c", y="b") + ")), trig=((D0[a][c], D0[c][b]),)))",
           # ... and leaves row k and column k as they are
           "(exists(t, 0 <= t < n and D0[t][t] < 0) or forall(a, implies(0 <= a < n, " + NEWD.format(x="a", y="k") + " == D0[a][k] and " + NEWD.format(x="k", y="a") + " == D0[k][a]), trig=D0[a][k]))"]

REG.fn(F, "floyd_warshall", prop="C11", ret="Result[opt[" + M + "]]", raises_ok=True, ext_inf=True, shards=8,
       types={"edges": E, "dist": M, "_comp1": M, "D0": M},
       requires=["forall(e, implies(0 <= e < len(edges), -inf() < edges[e][2] and edges[e][2] < inf()), trig=edges[e])",
                 # the ghost relation by its closure rules (the least such relation is 'walk from i to j of length d')
                 "forall(a, Reach3(a, a, 0.0), trig=Reach3(a, a, 0.0))",
                 "forall(e, implies(0 <= e < len(edges), Reach3(edges[e][0], edges[e][1], edges[e][2]) and (directed or Reach3(edges[e][1], edges[e][0], edges[e][2]))), trig=edges[e])",
                 "forall(a, b, c, x, y, implies(Reach3(a, c, x) and Reach3(c, b, y), Reach3(a, b, x + y)), sorts={'x': 'real', 'y': 'real'}, trig=((Reach3(a, c, x), Reach3(c, b, y)),))"],
       ghost_before=[("for i in range(n):\n    for j in range(n):", "D0", "dist")],
       ensures=[
           "result.status == 1 or result.status == 4",
           "implies(result.status == 4, is_none(result.solution) and exists(t, 0 <= t < n_nodes and dist[t][t] < 0 and Reach3(t, t, dist[t][t])))",
           "implies(result.status == 1, not is_none(result.solution) and val(result.solution) == dist)",
           "implies(result.status == 1, forall(a, implies(0 <= a < n_nodes, dist[a][a] == 0), trig=dist[a][a]))",
           "implies(result.status == 1, " + EDGES.format(hi="len(edges)") + ")",
           "implies(result.status == 1, forall(a, b, c, implies(0 <= a < n_nodes and 0 <= b < n_nodes and 0 <= c < n_nodes, dist[a][b] <= xadd(dist[a][c], dist[c][b])), trig=((dist[a][c], dist[c][b]),)))",
           "implies(result.status == 1, " + WALK + ")",
       ],
       loops={
           1: LoopSpec(invariants=["len(_comp1) == _", "forall(r, implies(0 <= r < _, len(_comp1[r]) == n), trig=_comp1[r])",
                                   "forall(a, b, implies(0 <= a < _ and 0 <= b < n, _comp1[a][b] == inf()), trig=_comp1[a][b])"]),
           2: LoopSpec(invariants=SHAPE + ["forall(a, b, implies(0 <= a < n and 0 <= b < n, dist[a][b] == (0 if (a == b and a < i) else inf())), trig=dist[a][b])"]),
           3: LoopSpec(index="q", invariants=SHAPE + [DIAG, WALK, EDGES.format(hi="q")]),
           4: LoopSpec(invariants=SHAPE + [DIAG, WALK, EDGES.format(hi="len(edges)"), CLOSED.format(hi="k")]),
           5: LoopSpec(invariants=SHAPE + D0FACTS + [DIAG, WALK, EDGES.format(hi="len(edges)"), "0 <= k < n",
                "(" + NEG + " or forall(a, b, implies(0 <= a < n and 0 <= b < n, " + "(" + UPD + " if a < i else dist[a][b] == D0[a][b])" + "), trig=dist[a][b]))"]),
           6: LoopSpec(invariants=SHAPE + D0FACTS + [DIAG, WALK, EDGES.format(hi="len(edges)"), "0 <= k < n", "0 <= i < n",
                "(" + NEG + " or forall(a, b, implies(0 <= a < n and 0 <= b < n, " + "(" + UPD + " if (a < i or (a == i and b < j)) else dist[a][b] == D0[a][b])" + "), trig=dist[a][b]))"]),
           7: LoopSpec(invariants=["forall(a, implies(0 <= a < i, dist[a][a] >= 0), trig=dist[a][a])"]),
       })

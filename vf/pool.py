"""Process-pool helper for the bounded back end: fn must be a module-level function of a check module;
each worker imports solvor from the tree under check (VERIF_REPO, default /repo)."""
from __future__ import annotations

import multiprocessing as mp
import os


def _init():
    from vf.core import use_repo
    use_repo()


def pmap(fn, items, procs=None, chunksize=None):
    items = list(items)
    if not items:
        return []
    procs = procs or min(16, os.cpu_count() or 1)
    if procs <= 1 or len(items) < 4:
        _init()
        return [fn(x) for x in items]
    ctx = mp.get_context("fork")
    with ctx.Pool(procs, initializer=_init) as pool:
        return pool.map(fn, items, chunksize or max(1, len(items) // (procs * 8)))

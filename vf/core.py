"""Check driver core: context, evidence writer, known findings, exit codes.

Exit codes (DESIGN 6.1): 0 held / 1 VIOLATION / 2 undecided / 3 checker defect.
"""
from __future__ import annotations

import hashlib
import json
import os
import sys
import time
import traceback

VERIF = os.path.dirname(os.path.dirname(os.path.abspath(__file__)))
REPO = os.environ.get("VERIF_REPO", "/repo")


def use_repo():
    """Make `import solvor` resolve to the working tree under check."""
    if sys.path[0] != REPO:
        sys.path.insert(0, REPO)
    for k in list(sys.modules):
        if k == "solvor" or k.startswith("solvor."):
            f = getattr(sys.modules[k], "__file__", "") or ""
            if not f.startswith(REPO):
                del sys.modules[k]


def canon(x):
    return json.dumps(x, sort_keys=True, default=repr)


def digest(x) -> str:
    return hashlib.sha1(canon(x).encode()).hexdigest()[:16]


class Ctx:
    def __init__(self, pid: str, tier: str, seed: int, level: str):
        self.pid, self.tier, self.seed, self.level = pid, tier, seed, level
        self.t0 = time.time()
        self.evaluations = 0
        self.nontrivial: set[str] = set()
        self.samples: list = []
        self.scopes: list[dict] = []
        self.obligations: list[dict] = []  # prover obligations
        self.functions: list[str] = []
        self.violations: list[dict] = []
        self.undecided: list[dict] = []
        self.defects: list[str] = []  # checker defects
        self.assumptions: list[str] = []
        self.trusted: list[str] = []
        self.notes: dict = {}
        self.rule = ""
        self.exhaustive = False
        self.known = load_known()
        self.known_hit: list[dict] = []

    @property
    def quick(self):
        return self.tier == "quick"

    # ---- bounded back end bookkeeping
    def count(self, n_eval: int, nontrivial_keys, samples=()):
        self.evaluations += n_eval
        self.nontrivial.update(nontrivial_keys)
        for s in samples:
            if len(self.samples) < 12:
                self.samples.append(s)

    def scope(self, name, **kw):
        d = {"scope": name}
        d.update(kw)
        self.scopes.append(d)

    def violation(self, obligation: str, case, detail: str = "", kind="runtime-contract", extra=None):
        v = {"property": self.pid, "obligation": obligation, "case": case, "detail": detail, "kind": kind}
        if extra:
            v.update(extra)
        k = self._known_match(v)
        if k is not None:
            if k not in self.known_hit:
                self.known_hit.append(k)
            k.setdefault("_n", 0)
            k["_n"] += 1
            return
        self.violations.append(v)

    def _known_match(self, v):
        for k in self.known.get("findings", []):
            if k.get("property") != self.pid:
                continue
            if k.get("obligation") and k["obligation"] != v["obligation"]:
                continue
            if k.get("obligations") and v["obligation"] not in k["obligations"]:
                continue
            if "case" in k and canon(k["case"]) != canon(v["case"]):
                continue
            if "case_digest" in k and k["case_digest"] != digest(v["case"]):
                continue
            if "call_site" in k and k["call_site"] != (v.get("call_site") or ""):
                continue
            return k
        return None

    # ---- prover bookkeeping
    def add_proof_report(self, rep: dict):
        """rep: output of pyvc.run.prove_functions."""
        self.functions.extend(rep["functions"])
        self.obligations.extend(rep["obligations"])
        for a in rep.get("assumptions", []):
            if a not in self.assumptions:
                self.assumptions.append(a)
        for t in rep.get("trusted", []):
            if t not in self.trusted:
                self.trusted.append(t)
        for d in rep.get("defects", []):
            self.defects.append(d)
        self.notes.setdefault("entry_preconditions_assumed", {}).update(rep.get("entry_preconditions", {}))
        self.notes.setdefault("callback_assumptions", {}).update(rep.get("callback_assumptions", {}))
        self.notes["axioms_in_hypotheses"] = rep.get("lemma_axioms", [])


def load_known():
    p = os.path.join(VERIF, "known_findings.json")
    if os.path.exists(p):
        return json.load(open(p))
    return {"findings": [], "fixed": []}


def write_replay(ctx: Ctx, v: dict, idx: int) -> str:
    d = os.path.join(VERIF, "replays") if REPO == "/repo" else "/tmp/verif_scratch_replays"
    os.makedirs(d, exist_ok=True)
    p = os.path.join(d, f"{ctx.pid}_{idx}_{digest(v)}.json")
    with open(p, "w") as f:
        json.dump(v, f, indent=1, default=repr)
    return p


def finish(ctx: Ctx) -> int:
    wall = time.time() - ctx.t0
    n_obl = len(ctx.obligations)
    n_dis = sum(1 for o in ctx.obligations if o["status"] == "discharged")
    by_solver: dict[str, int] = {}
    solver_time = 0.0
    for o in ctx.obligations:
        if o["status"] == "discharged":
            by_solver[o.get("solver", "?")] = by_solver.get(o.get("solver", "?"), 0) + 1
        solver_time += o.get("time", 0.0)
    for o in ctx.obligations:
        if o["status"] == "failed":
            ctx.violation(o["name"], o.get("counterexample"), o.get("detail", ""), kind="proof-obligation",
                          extra={"replayed": o.get("replayed", False), "solver_output": o.get("solver_output", ""),
                                 "vc": o.get("vc", "")})
        elif o["status"] in ("unknown", "drift"):
            ctx.undecided.append({"obligation": o["name"], "why": o.get("detail", o["status"])})
    cov = {
        "evaluations": ctx.evaluations,
        "distinct_nontrivial": len(ctx.nontrivial),
        "rule": ctx.rule,
        "samples": ctx.samples[:12] or [o["name"] for o in ctx.obligations[:8]],
        "exhaustive": ctx.exhaustive,
        "scopes": ctx.scopes,
        "obligations": n_obl,
        "discharged": n_dis,
        "discharged_by": by_solver,
        "solver_time_s": round(solver_time, 3),
        "functions_under_contract": ctx.functions,
        "obligation_names": [o["name"] for o in ctx.obligations][:400],
        "checker_cmd": f"./check {ctx.pid} --tier {ctx.tier}",
        "trusted_base": ctx.trusted,
        "undecided": ctx.undecided[:50],
        "known_findings_hit": [{k: v for k, v in kf.items()} for kf in ctx.known_hit],
        "checker_defects": ctx.defects[:20],
    }
    cov.update(ctx.notes)
    ev = {
        "property_id": ctx.pid,
        "tier": ctx.tier,
        "seed": ctx.seed,
        "level": ctx.level,
        "coverage": cov,
        "assumptions": ctx.assumptions,
        "wall_s": round(wall, 2),
        "violations": len(ctx.violations),
    }
    evdir = os.path.join(VERIF, "evidence") if REPO == "/repo" else "/tmp/verif_scratch_evidence"
    os.makedirs(evdir, exist_ok=True)  # runs against a scratch copy (VERIF_REPO) never touch the committed evidence
    evp = os.path.join(evdir, f"{ctx.pid}.json")
    with open(evp, "w") as f:
        json.dump(ev, f, indent=1, default=repr)
    try:
        import jsonschema

        schema = json.load(open("/root/.vp/EVIDENCE.schema.json"))
        jsonschema.validate(json.load(open(evp)), schema)
    except FileNotFoundError:
        pass
    except Exception as e:  # schema violation is a checker defect
        ctx.defects.append(f"evidence schema: {e}")
    for kf in ctx.known_hit:
        print(f"KNOWN-FINDING: property={ctx.pid} {kf.get('what', kf.get('obligation'))} (hits this run: {kf.get('_n')})")
    print(f"[{ctx.pid}] tier={ctx.tier} seed={ctx.seed} obligations={n_obl} discharged={n_dis} "
          f"bounded_evals={ctx.evaluations} nontrivial={len(ctx.nontrivial)} violations={len(ctx.violations)} "
          f"undecided={len(ctx.undecided)} wall={wall:.1f}s")
    if ctx.violations:
        seen = {}
        ctx.violations.sort(key=lambda v: (0 if v.get("kind") == "proof-obligation" and v.get("replayed") else
                                           1 if v.get("kind") != "proof-obligation" else 2))
        for i, v in enumerate(ctx.violations):
            key = v["obligation"]
            seen[key] = seen.get(key, 0) + 1
            if seen[key] > 2 or (i > 40 and v.get("kind") != "proof-obligation"):  # a failed proof obligation is always named
                continue
            p = write_replay(ctx, v, i)
            tail = ""
            if v.get("kind") == "proof-obligation" and not v.get("replayed"):
                tail = " no-failing-input-found"
            print(f"  obligation: {v['obligation']} :: {str(v.get('detail'))[:300]}")
            print(f"VIOLATION property={ctx.pid} replay={p}{tail}")
        return 1
    if ctx.defects:
        for d in ctx.defects[:10]:
            print("CHECKER-DEFECT:", d)
        return 3
    if ctx.undecided:
        for u in ctx.undecided[:10]:
            print("UNDECIDED:", u)
        if ctx.level == "proof":
            return 2  # the claim IS the proof: without it nothing is decided at that level
        # exploration level: the bounded back end has decided the property on everything explored; the undecided
        # proof obligations are reported (and recorded in the evidence) but do not make the check fail
        print(f"[{ctx.pid}] proof obligations undecided (see above); verdict of the bounded back end stands")
    if n_obl == 0 and ctx.evaluations == 0:
        print("CHECKER-DEFECT: zero obligations and zero evaluations")
        return 3
    return 0


def main(argv=None):
    import argparse
    import importlib

    ap = argparse.ArgumentParser()
    ap.add_argument("pid")
    ap.add_argument("--tier", default=os.environ.get("VERIF_TIER", "quick"))
    ap.add_argument("--replay", default=None)
    a = ap.parse_args(argv)
    seed = int(os.environ.get("VERIF_SEED", "0") or 0)
    sys.path.insert(0, VERIF)
    use_repo()
    try:
        mod = importlib.import_module(f"checks.{a.pid}")
    except Exception:
        traceback.print_exc()
        return 3
    if a.replay:
        try:
            return mod.replay(json.load(open(a.replay)))
        except Exception:
            traceback.print_exc()
            return 3
    ctx = Ctx(a.pid, a.tier if a.tier in ("quick", "thorough") else "quick", seed, getattr(mod, "LEVEL", "exploration"))
    try:
        mod.run(ctx)
        from vf import frame
        frame.check(ctx, a.pid)  # frame condition shared by all properties (vf/frame.py)
        # every listed known finding is re-played on every run (both tiers): it must still fail on the real code to stay listed
        for k in ctx.known.get("findings", []):
            inputs = ([k["input"]] if k.get("input") else []) + list(k.get("inputs", []))
            if k.get("property") != a.pid or not inputs:
                continue
            if ctx.tier == "quick":
                inputs = inputs[:1]  # the cheapest witness on every change, all of them in the thorough tier
            for inp in inputs:
                try:
                    import contextlib
                    import io
                    rec = json.load(open(os.path.join(VERIF, inp)))
                    with contextlib.redirect_stdout(io.StringIO()):
                        rc = mod.replay(rec)
                except Exception as e:  # noqa: BLE001
                    ctx.defects.append(f"known finding {inp}: replay crashed: {e!r}")
                    continue
                if rc == 1:
                    k["_n"] = k.get("_n", 0) + 1
                    if k not in ctx.known_hit:
                        ctx.known_hit.append(k)
                else:
                    print(f"NOTE: the witness {inp} of a listed finding no longer reproduces on this tree (the entry can become a fixed: line)")
    except Exception:
        traceback.print_exc()
        ctx.defects.append(traceback.format_exc()[-1500:])
    return finish(ctx)


if __name__ == "__main__":
    sys.exit(main())

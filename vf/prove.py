"""Shared helper: run the deductive back end for the contracts that serve one property."""
from __future__ import annotations

import importlib

STD_ASSUMPTIONS = [
    "A1 Python int is mathematical (faithful)",
    "A2 Python float is modelled as a mathematical real (no rounding); float('inf') is only compared: every + - * on reals carries the proved obligation `inf-arith` (no operand is +-inf, hence no inf - inf / NaN) under the stated finiteness preconditions on weights and callback results",
    "A3 exceptions: every subscript / key / division / possibly-unbound local generates an obligation; MemoryError and RecursionError ignored",
    "A4 user callbacks: the objective is a pure deterministic function (uninterpreted); other callbacks and the seeded Random instance return arbitrary values of their documented range; callbacks do not reach the solver's locals",
    "A6 set/dict iteration order arbitrary",
    "value semantics for lists/dicts/sets (functions that alias two mutable names are outside the subset)",
    "partial correctness unless a `decreases` measure is listed for the loop / recursion",
]


def prove(ctx, spec_modules, prop, lemma_groups=()):
    from pyvc.run import prove_functions
    from pyvc.spec import REG
    for m in spec_modules:
        importlib.import_module(m)
    keys = [k for k, s in REG.fns.items() if prop in s.prop.split(",")]
    if not keys:
        return
    rep = prove_functions(spec_modules, keys, tier=ctx.tier, lemma_groups=lemma_groups)
    ctx.add_proof_report(rep)
    ctx.notes.setdefault("hygiene", {}).update(rep["hygiene"])
    ctx.notes["proved_functions"] = sorted({o["name"].split("/", 1)[1].rsplit("/", 1)[0]
                                            for o in rep["obligations"] if "::" in o["name"]}
                                           - {o["name"].split("/", 1)[1].rsplit("/", 1)[0]
                                              for o in rep["obligations"] if "::" in o["name"] and o["status"] != "discharged"})
    for a in STD_ASSUMPTIONS:
        if a not in ctx.assumptions:
            ctx.assumptions.append(a)

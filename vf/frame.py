"""Frame condition for every property: the functions of the files a property is anchored in are functions of
their arguments - they do not write module-level state and do not grow persistent attributes on their
objects outside `__init__`.  Decided syntactically on /repo's current AST (no solver): every write site is
compared with the committed whitelist of the sites that exist on the tree the contracts were written for
(`specs/frame_whitelist.json`, regenerated only by `tools/gen_frame_whitelist.py`).  A NEW site fails the
obligation `<Cxx>/<file>::<function>/frame:no-new-persistent-state`.

Why this is a contract and not a style rule: several statements say so explicitly (C07 'solving the same input
again gives the same answer', C19 'a fixed seed reproduces the same result'), and all of them quantify over
inputs only - an answer that depends on earlier calls (a cache keyed by object identity, a memo that forgets
part of the key, a reused encoder) is outside what small-scope enumeration of fresh inputs can reach.
"""
from __future__ import annotations

import ast
import json
import os

from vf.core import REPO, VERIF

MUTATORS = {"append", "extend", "insert", "pop", "remove", "clear", "add", "discard", "update", "setdefault",
            "popitem", "appendleft", "popleft", "sort", "reverse", "__setitem__"}


def anchored_files(pid: str):
    out = []
    for line in open(os.path.join(VERIF, "properties.jsonl")):
        p = json.loads(line)
        if p["id"] == pid:
            out = [f for f in p["anchors"]["files"] if f.endswith(".py")]
    return out


def _locals_of(fn: ast.AST):
    names = set()
    a = fn.args
    for p in list(a.posonlyargs) + list(a.args) + list(a.kwonlyargs):
        names.add(p.arg)
    if a.vararg:
        names.add(a.vararg.arg)
    if a.kwarg:
        names.add(a.kwarg.arg)
    globs = set()
    for n in ast.walk(fn):
        if isinstance(n, ast.Global):
            globs.update(n.names)
        elif isinstance(n, ast.Name) and isinstance(n.ctx, ast.Store):
            names.add(n.id)
        elif isinstance(n, (ast.FunctionDef, ast.ClassDef)) and n is not fn:
            names.add(n.name)
    return names - globs, globs


def scan_file(relfile: str):
    """returns the list of persistent-state write sites: dicts(kind, file, func, target)"""
    path = os.path.join(REPO, relfile)
    if not os.path.exists(path):
        return []
    mod = ast.parse(open(path).read())
    module_names = set()
    for n in mod.body:
        if isinstance(n, (ast.Assign, ast.AnnAssign, ast.AugAssign)):
            for t in (n.targets if isinstance(n, ast.Assign) else [n.target]):
                for x in ast.walk(t):
                    if isinstance(x, ast.Name):
                        module_names.add(x.id)
    sites = []

    def visit_fn(fn, qual, cls):
        loc, globs = _locals_of(fn)
        # names of enclosing functions' locals are not module state: collect outward
        for n in ast.walk(fn):
            if isinstance(n, ast.Global):
                for g in n.names:
                    sites.append({"kind": "global", "file": relfile, "func": qual, "target": g})
            tgt = None
            if isinstance(n, ast.Assign):
                tgts = n.targets
            elif isinstance(n, (ast.AugAssign, ast.AnnAssign)):
                tgts = [n.target]
            else:
                tgts = []
            for t in tgts:
                base = t
                while isinstance(base, (ast.Subscript, ast.Attribute)):
                    # self.attr = ... outside __init__: persistent attribute on the object
                    if (isinstance(base, ast.Attribute) and isinstance(base.value, ast.Name) and base.value.id == "self"
                            and cls and fn.name != "__init__" and base is t):
                        sites.append({"kind": "attr", "file": relfile, "func": qual, "target": f"{cls}.{base.attr}"})
                    base = base.value
                # self.<obj>.<attr> = ... : rebinding state of an object this one merely refers to
                if (isinstance(t, ast.Attribute) and isinstance(t.value, ast.Attribute) and isinstance(t.value.value, ast.Name)
                        and t.value.value.id == "self" and cls):
                    sites.append({"kind": "foreign-attr", "file": relfile, "func": qual, "target": f"{cls}.{t.value.attr}.{t.attr}"})
                if isinstance(base, ast.Name) and base is not t and base.id in module_names and base.id not in loc:
                    sites.append({"kind": "module-mutation", "file": relfile, "func": qual, "target": base.id})
            if isinstance(n, ast.Call) and isinstance(n.func, ast.Attribute) and n.func.attr in MUTATORS:
                base = n.func.value
                while isinstance(base, (ast.Subscript, ast.Attribute)):
                    base = base.value
                if isinstance(base, ast.Name) and base.id in module_names and base.id not in loc and base.id not in outer_locals.get(qual, set()):
                    sites.append({"kind": "module-mutation", "file": relfile, "func": qual, "target": base.id})

    outer_locals: dict[str, set] = {}

    def walk(node, prefix, cls, inherited):
        for c in node.body if hasattr(node, "body") else []:
            if isinstance(c, ast.ClassDef):
                walk(c, prefix + c.name + ".", c.name, inherited)
            elif isinstance(c, (ast.FunctionDef, ast.AsyncFunctionDef)):
                q = prefix + c.name
                outer_locals[q] = set(inherited)
                visit_fn(c, q, cls)
                loc, _ = _locals_of(c)
                walk(c, q + ".", cls, inherited | loc)
            elif isinstance(c, (ast.If, ast.For, ast.While, ast.With, ast.Try)):
                walk(c, prefix, cls, inherited)

    walk(mod, "", None, set())
    # de-duplicate; drop mutations of names that are locals of an enclosing function
    seen, out = set(), []
    for s in sites:
        if s["kind"] == "module-mutation" and s["target"] in outer_locals.get(s["func"], set()):
            continue
        k = (s["kind"], s["file"], s["func"], s["target"])
        if k not in seen:
            seen.add(k)
            out.append(s)
    return out


HEAPQ_OPS = ("heappush", "heappop", "heapify", "heapreplace", "heappushpop")


def _callee_name(call):
    return call.func.id if isinstance(call.func, ast.Name) else getattr(call.func, "attr", None)


def heap_sites(relfile: str):
    """Heap discipline: a list that a function hands to heapq must keep the heap invariant, so inside that function it may only be
    changed by heapq itself - any other rebinding or in-place change (after its initial `h = []` / `h = [x]`) must be followed at once
    by `heapify(h)`.  A sufficient syntactic condition for 'heappop returns a minimum', decided on /repo's current AST; the unchanged tree
    has no such site.  Returns the offending sites."""
    path = os.path.join(REPO, relfile)
    if not os.path.exists(path):
        return []
    mod = ast.parse(open(path).read())
    out = []
    for fn in [n for n in ast.walk(mod) if isinstance(n, ast.FunctionDef)]:
        first_op = {}
        for n in ast.walk(fn):
            if isinstance(n, ast.Call) and _callee_name(n) in HEAPQ_OPS and n.args and isinstance(n.args[0], ast.Name):
                h = n.args[0].id
                first_op[h] = min(first_op.get(h, n.lineno), n.lineno)
        if not first_op:
            continue

        def blocks(node):
            for f in ("body", "orelse", "finalbody"):
                b = getattr(node, f, None)
                if isinstance(b, list) and b and isinstance(b[0], ast.stmt):
                    yield b
                    for st in b:
                        if not isinstance(st, (ast.FunctionDef, ast.ClassDef)):
                            yield from blocks(st)
            for hd in getattr(node, "handlers", []):
                yield from blocks(hd)

        for b in blocks(fn):
            for i, st in enumerate(b):
                hit = None
                if isinstance(st, (ast.Assign, ast.AnnAssign, ast.AugAssign)):
                    for t in (st.targets if isinstance(st, ast.Assign) else [st.target]):
                        base = t
                        while isinstance(base, ast.Subscript):
                            base = base.value
                        if isinstance(base, ast.Name) and base.id in first_op:
                            hit = (base.id, "rebinding / item assignment")
                elif (isinstance(st, ast.Expr) and isinstance(st.value, ast.Call) and isinstance(st.value.func, ast.Attribute)
                      and isinstance(st.value.func.value, ast.Name) and st.value.func.value.id in first_op
                      and st.value.func.attr in ("append", "extend", "insert", "remove", "pop", "sort", "reverse")
                      and not (st.value.func.attr == "pop" and not st.value.args)):  # dropping the last leaf keeps a heap a heap; so does clear()
                    hit = (st.value.func.value.id, "." + st.value.func.attr + "()")
                if hit is None:
                    continue
                h, kind = hit
                nxt = b[i + 1] if i + 1 < len(b) else None
                heapified = (isinstance(nxt, ast.Expr) and isinstance(nxt.value, ast.Call) and _callee_name(nxt.value) == "heapify"
                             and nxt.value.args and isinstance(nxt.value.args[0], ast.Name) and nxt.value.args[0].id == h)
                val = getattr(st, "value", None)
                initial = (isinstance(st, (ast.Assign, ast.AnnAssign)) and isinstance(val, ast.List) and len(val.elts) <= 1
                           and isinstance(st.targets[0] if isinstance(st, ast.Assign) else st.target, ast.Name))  # [] and [x] are heaps
                if not heapified and not initial:
                    out.append({"file": relfile, "func": fn.name, "heap": h, "kind": kind, "line": st.lineno})
    return out


def whitelist():
    p = os.path.join(VERIF, "specs", "frame_whitelist.json")
    return {tuple(x) for x in json.load(open(p))} if os.path.exists(p) else set()


def check(ctx, pid: str):
    """adds one obligation per anchored file (discharged when no new persistent-state write site exists)"""
    wl = whitelist()
    for f in anchored_files(pid):
        new = [s for s in scan_file(f) if (s["kind"], s["file"], s["func"], s["target"]) not in wl]
        name = f"{pid}/{f}::*/frame:no-new-persistent-state"
        if not new:
            ctx.obligations.append({"name": name, "status": "discharged", "solver": "syntactic", "time": 0.0, "kind": "frame"})
        else:
            for s in new:
                ctx.obligations.append({
                    "name": f"{pid}/{f}::{s['func']}/frame:no-new-persistent-state", "status": "failed", "solver": "syntactic",
                    "time": 0.0, "kind": "frame", "counterexample": None,
                    "detail": (f"{s['func']} writes persistent state ({s['kind']}: {s['target']}) that did not exist when the contract was "
                               f"attached: its answers may depend on earlier calls (cache / memo / reused helper object)"),
                    "solver_output": json.dumps(s)})
    for f in anchored_files(pid):
        try:
            bad = heap_sites(f)
        except SyntaxError:
            bad = []
        name = f"{pid}/{f}::*/heap-discipline"
        if not bad:
            if any(h in open(os.path.join(REPO, f)).read() for h in ("heappush", "heappop")):
                ctx.obligations.append({"name": name, "status": "discharged", "solver": "syntactic", "time": 0.0, "kind": "heap-discipline"})
        for b in bad:
            ctx.obligations.append({
                "name": f"{pid}/{f}::{b['func']}/heap-discipline:{b['heap']}", "status": "failed", "solver": "syntactic", "time": 0.0,
                "kind": "heap-discipline", "counterexample": None,
                "detail": (f"{b['func']} hands the list `{b['heap']}` to heapq but changes it at line {b['line']} by {b['kind']} without an immediate "
                           f"heapify({b['heap']}): the heap invariant is lost, heappop need no longer return a minimum (best-first / label-setting order breaks)"),
                "solver_output": json.dumps(b)})
    if f"frame:{pid}" not in ctx.functions:
        ctx.functions.append(f"frame condition over {', '.join(anchored_files(pid))}")

"""Prove all obligations of a list of contracts; one worker process per (function, variant)."""
from __future__ import annotations

import importlib
import multiprocessing as mp
import os
import subprocess
import tempfile
import time
import traceback
from fractions import Fraction

import z3

QUICK_MS = int(os.environ.get("PYVC_TIMEOUT_MS", "10000"))
RLIMIT_PER_MS = 1500   # z3 resource units per nominal millisecond of budget
WALL_FACTOR = 40       # wall-clock backstop = nominal budget x this (a loaded machine only makes the proof slower)


def model_value(m, v, depth=0):
    from .types import (BOOL, INT, REAL, TDict, TList, TMap, TOpt, TSet, TTuple, list_arr, list_len, tuple_get,
                        opt_is_none, opt_val, dict_dom, dict_val, set_mem, V)
    if v.z is None:
        return None
    t = v.t
    try:
        if t == INT:
            return m.eval(v.z, model_completion=True).as_long()
        if t == BOOL:
            return bool(z3.is_true(m.eval(v.z, model_completion=True)))
        if t == REAL:
            r = m.eval(v.z, model_completion=True)
            if z3.is_rational_value(r):
                fr = Fraction(r.numerator_as_long(), r.denominator_as_long())
                return int(fr) if fr.denominator == 1 else float(fr)
            return str(r)
        if isinstance(t, TList):
            n = m.eval(list_len(v), model_completion=True).as_long()
            arr = list_arr(v)
            return [model_value(m, V(t.elem, z3.Select(arr, i)), depth + 1) for i in range(min(n, 40))]
        if isinstance(t, TMap):
            if t.k == INT:
                return {"map_first_16": [model_value(m, V(t.v, z3.Select(v.z, i)), depth + 1) for i in range(16)]}
            return str(m.eval(v.z, model_completion=True))[:200]
        if isinstance(t, TTuple):
            return [model_value(m, tuple_get(v, i), depth + 1) for i in range(len(t.items))]
        if isinstance(t, TOpt):
            if z3.is_true(m.eval(opt_is_none(v), model_completion=True)):
                return None
            return model_value(m, opt_val(v), depth + 1)
        return str(m.eval(v.z, model_completion=True))[:200]
    except Exception as e:  # pragma: no cover
        return f"<{e}>"


def run_cvc5(smt2: str, timeout_ms: int) -> str:
    try:
        with tempfile.NamedTemporaryFile("w", suffix=".smt2", delete=False) as f:
            f.write("(set-logic ALL)\n" + smt2)
            p = f.name
        try:
            # cvc5 either answers within milliseconds or not at all on these queries; its (wall-clock) limit is generous
            out = subprocess.run(["/usr/bin/cvc5", "--lang", "smt2", f"--tlimit={timeout_ms * 4}", p],
                                 capture_output=True, text=True, timeout=timeout_ms * 4 / 1000 + 5)
            r = out.stdout.strip().splitlines()
            return r[0] if r else "unknown"
        finally:
            os.unlink(p)
    except Exception:
        return "unknown"


def discharge(ob, input_syms, timeout_ms, prefer_cvc5=False):
    t0 = time.time()
    s = z3.Solver()
    if prefer_cvc5 and ob.expect == "valid":
        s0 = z3.Solver()
        for h in ob.hyps:
            s0.add(h)
        s0.add(z3.Not(ob.goal))
        if run_cvc5(s0.to_smt2(), min(timeout_ms, 5000)) == "unsat":
            return {"name": ob.name, "kind": ob.kind, "expect": ob.expect, "solver": "cvc5", "status": "discharged",
                    "time": round(time.time() - t0, 4)}
    # portfolio: z3 with a short budget, then cvc5 on the same query text, then z3 with the full budget.
    # z3's budgets are RESOURCE limits (rlimit, deterministic: about 1.4 M units per CPU second here), so a verdict does
    # not depend on how busy the machine is; the wall-clock timeout is only a generous backstop.
    short = min(timeout_ms, 2500) if ob.expect == "valid" else min(timeout_ms, 1000)
    # every obligation is solved in a z3 context of its own: the search then depends on the obligation alone, not on which
    # obligations the same process has discharged before (sharding and scheduling cannot change a verdict)
    own = z3.Context()
    s = z3.Solver(ctx=own)
    s.set("rlimit", short * RLIMIT_PER_MS)
    s.set("timeout", short * WALL_FACTOR)
    for h in ob.hyps:
        s.add(h.translate(own) if z3.is_expr(h) else h)
    s.add(z3.Not(ob.goal).translate(own))
    r = s.check()
    if r == z3.unknown and ob.expect == "valid":
        r2 = run_cvc5(s.to_smt2(), timeout_ms)
        if r2 == "unsat":
            return {"name": ob.name, "kind": ob.kind, "expect": ob.expect, "solver": "cvc5", "status": "discharged",
                    "time": round(time.time() - t0, 4)}
        s.set("rlimit", timeout_ms * RLIMIT_PER_MS)
        s.set("timeout", timeout_ms * WALL_FACTOR)
        r = s.check()
    res = {"name": ob.name, "kind": ob.kind, "expect": ob.expect, "solver": "z3", "time": 0.0}
    if ob.expect == "refutable":
        # hygiene canary: hypotheses must be satisfiable (sat) - unsat means vacuous contract / dead code
        res["status"] = "vacuous" if r == z3.unsat else ("reachable" if r == z3.sat else "reachable?")
    elif r == z3.unsat:
        res["status"] = "discharged"
    elif r == z3.sat:
        res["status"] = "failed"
        res["detail"] = "z3 found a counter-model"
        res["solver_output"] = str(s.model())[:1500]
        # the model is read in the main context (the symbols of the inputs live there): solve once more there
        sm = z3.Solver()
        sm.set("rlimit", timeout_ms * RLIMIT_PER_MS)
        sm.set("timeout", timeout_ms * WALL_FACTOR)
        for h in ob.hyps:
            sm.add(h)
        sm.add(z3.Not(ob.goal))
        if sm.check() == z3.sat:
            m = sm.model()
            res["counterexample"] = {k: model_value(m, v) for k, v in input_syms.items() if v.z is not None}
            res["solver_output"] = str(m)[:1500]
    else:
        # second opinion: cvc5 on the same query text
        r2 = run_cvc5(s.to_smt2(), timeout_ms)
        if r2 == "unsat":
            res["status"] = "discharged"
            res["solver"] = "cvc5"
        else:
            # candidate counter-model ignoring quantified hypotheses (to be replayed natively before it counts)
            from .concrete import candidate_model
            cand = None
            m = candidate_model(ob.hyps, ob.goal, input_syms)
            if m is not None:
                cand = {k: model_value(m, v) for k, v in input_syms.items() if v.z is not None}
            res["status"] = "unknown"
            res["detail"] = f"z3: {r} ({s.reason_unknown()}); cvc5: {r2}"
            res["candidate"] = cand
    res["time"] = round(time.time() - t0, 4)
    if res["status"] in ("failed", "unknown"):
        try:
            res["vc"] = f"goal: {ob.goal}"[:1500]
        except Exception:
            pass
    return res


def prove_one(task):
    """task = (spec_modules, key, variant, timeout_ms[, shard, nshards])"""
    spec_modules, key, variant, timeout_ms = task[:4]
    shard, nshards = (task[4], task[5]) if len(task) > 4 else (0, 1)
    out = {"function": key, "variant": variant, "obligations": [], "error": None, "drift": None, "builtins": []}
    try:
        for m in spec_modules:
            importlib.import_module(m)
        from .spec import REG
        from .symexec import Executor
        from .source import locate, Drift as SDrift
        from .symexec import Drift
        from .expr import Unsupported
        from . import builtins as B
        sp = REG.fns[key]
        try:
            mod, fn, cls = locate(sp.file, sp.qualname)
            try:  # has the text of the function changed since the contract was attached?  (classifies crashes / vacuity below)
                import json as _json0
                from .source import text_hash as _th
                _fpt = _json0.load(open(os.path.join(os.path.dirname(os.path.dirname(os.path.abspath(__file__))), "specs", "fingerprints_text.json")))
                out["text_changed"] = key in _fpt and _fpt[key] != _th(fn)
            except Exception:
                out["text_changed"] = False
            ex = Executor(REG, sp, mod, fn, cls, variant=variant)
            obls = ex.run()
        except (SDrift, Drift) as e:
            out["drift"] = str(e)
            return out
        except Unsupported as e:
            out["drift"] = f"outside the supported subset / spec mismatch: {e}"
            return out
        n_loops = len(ex.loops)
        bad = [k for k in sp.loops if k > n_loops]
        if bad:
            out["drift"] = f"spec names loop #{bad} but the function has {n_loops} loops"
            return out
        from .concrete import replay, candidate_models
        only = os.environ.get("PYVC_ONLY")
        if only:
            obls = [o for o in obls if any(p in o.name for p in only.split(","))]
        obls = obls[shard::nshards]
        n_replays = 0
        confirmed = None
        searched = False
        for ob in obls:
            r = discharge(ob, ex.input_syms, sp.timeout_ms or timeout_ms, prefer_cvc5=sp.prefer_cvc5)
            if r["status"] in ("failed", "unknown") and ob.expect == "valid":
                if confirmed is not None:
                    # one replayed input per function is enough evidence; attach it
                    r["replay"] = confirmed[1]
                    r["counterexample"] = confirmed[0]
                    r["replayed"] = True
                    r["status"] = "failed"
                    r["detail"] = (r.get("detail") or "") + " | same function already has a replayed failing input: " + confirmed[1]["detail"]
                elif n_replays < 40:
                    tried = []
                    first = r.get("counterexample")
                    gen = candidate_models(ob.hyps, ob.goal, ex.input_syms)
                    t_rep = time.time()
                    while n_replays < 40 and time.time() - t_rep < 60:
                        if first is not None:
                            cand, first = first, None
                        else:
                            m = next(gen, None)
                            if m is None:
                                break
                            cand = {k: model_value(m, v) for k, v in ex.input_syms.items() if v.z is not None}
                        n_replays += 1
                        try:
                            rp = replay(key, cand, variant)
                        except Exception as e:
                            rp = {"confirmed": False, "detail": f"replay error: {e!r}"}
                        tried.append(rp.get("detail", "")[:80])
                        if rp.get("confirmed"):
                            confirmed = (cand, rp)
                            r["replayed"] = True
                            r["status"] = "failed"
                            r["counterexample"] = cand
                            r["replay"] = rp
                            r["detail"] = (r.get("detail") or "") + " | replayed on the real code: " + rp["detail"]
                            break
                    if not r.get("replayed") and not searched:
                        searched = True
                        from .concrete import random_search
                        try:
                            found = random_search(key, variant)
                        except Exception as e:
                            found = None
                            tried.append(f"random search error {e!r}")
                        if found:
                            cand, rp = found
                            confirmed = (cand, rp)
                            r["replayed"] = True
                            r["status"] = "failed"
                            r["counterexample"] = cand
                            r["replay"] = rp
                            r["detail"] = (r.get("detail") or "") + " | found by bounded search around the function, replayed on the real code: " + rp["detail"]
                    r["replays_tried"] = len(tried)
                    if not r.get("replayed"):
                        r["replay_notes"] = tried[:5]
            out["obligations"].append(r)
        out["builtins"] = sorted(B.USED_BUILTINS)
        # structural drift: the function's statement skeleton differs from the one the contract was attached to
        try:
            import json as _json
            from .source import skeleton
            fps = _json.load(open(os.path.join(os.path.dirname(os.path.dirname(os.path.abspath(__file__))), "specs", "fingerprints.json")))
            try:
                from .source import text_hash
                fpt = _json.load(open(os.path.join(os.path.dirname(os.path.dirname(os.path.abspath(__file__))), "specs", "fingerprints_text.json")))
                if key in fpt and fpt[key] != text_hash(fn):
                    out["restructured"] = True  # for the vacuity classification: the text the contract was attached to has changed
            except FileNotFoundError:
                pass
            if key in fps and fps[key] != skeleton(fn):
                out["restructured"] = True
                for r in out["obligations"]:
                    if r["status"] in ("failed", "unknown") and not r.get("replayed") and r.get("expect") == "valid":
                        r["status"] = "drift"
                        r["detail"] = ("the function was restructured since the contract was attached (statement skeleton changed) and this "
                                       "obligation no longer goes through without a reproducing input: contract needs re-attachment | " + (r.get("detail") or ""))
        except FileNotFoundError:
            pass
    except Exception:
        out["error"] = traceback.format_exc()[-2000:]
    return out


def prove_bv_lemmas(spec_modules, groups):
    for m in spec_modules:
        importlib.import_module(m)
    from .spec import REG
    from .lemmas import prove_bv64
    res = []
    from .lemmas import prove_induction
    from .symexec import Executor
    from .spec import FnSpec
    import ast as _ast
    dummy = Executor(REG, FnSpec("", "lemma"), None, _ast.parse("def lemma(): pass").body[0])
    for lem in REG.lemmas.values():
        if lem.kind == "induction" and (lem.group in groups or not groups):
            t0 = time.time()
            for nm, r, cex in prove_induction(dummy, lem):
                res.append({"name": f"lemma:{lem.name}/{nm}", "kind": "lemma-induction", "expect": "valid", "solver": "z3",
                            "status": "discharged" if r == "unsat" else ("failed" if r == "sat" else "unknown"),
                            "detail": cex, "time": round(time.time() - t0, 4)})
    for lem in REG.lemmas.values():
        if lem.kind == "bv64" and (lem.group in groups or not groups):
            t0 = time.time()
            r, cex = prove_bv64(lem)
            res.append({"name": f"lemma:{lem.name}", "kind": "lemma-bv64", "expect": "valid", "solver": "z3-bv64",
                        "status": "discharged" if r == "unsat" else ("failed" if r == "sat" else "unknown"),
                        "detail": cex, "time": round(time.time() - t0, 4)})
    return res


def prove_functions(spec_modules, keys, tier="quick", procs=16, lemma_groups=()):
    """returns the report consumed by vf.core.Ctx.add_proof_report"""
    for m in spec_modules:
        importlib.import_module(m)
    from .spec import REG
    timeout_ms = QUICK_MS if tier == "quick" else 60000
    tasks = []
    for k in keys:
        sp = REG.fns[k]
        if sp.trusted:
            continue
        for var in (sp.variants or [None]):
            ns = max(1, min(sp.shards, procs))
            for sh in range(ns):
                tasks.append((spec_modules, k, var, timeout_ms, sh, ns))
    ctx = mp.get_context("fork")
    # one fresh process per task: z3's search depends on what the same context has seen before, so a worker that has already
    # discharged other functions could behave differently from run to run (tasks are handed out dynamically)
    with ctx.Pool(min(procs, max(1, len(tasks))), maxtasksperchild=1) as pool:
        lem_async = pool.apply_async(prove_bv_lemmas, (spec_modules, list(lemma_groups))) if lemma_groups else None
        results = pool.map(prove_one, tasks, chunksize=1)
        lem_res = lem_async.get() if lem_async else []
    rep = {"functions": [], "obligations": [], "assumptions": [], "trusted": [], "defects": [], "hygiene": {}}
    covers = vac = 0
    builtins = set()
    merged = {}
    for r in results:  # shards of one function are one result
        fk = (r["function"], str(r["variant"]))
        if fk not in merged:
            merged[fk] = r
        else:
            m0 = merged[fk]
            m0["obligations"].extend(r["obligations"])
            m0["builtins"] = sorted(set(m0.get("builtins", [])) | set(r.get("builtins", [])))
            m0["error"] = m0["error"] or r["error"]
            m0["restructured"] = m0.get("restructured") or r.get("restructured")
            m0["text_changed"] = m0.get("text_changed") or r.get("text_changed")
            m0["drift"] = m0["drift"] or r["drift"]
    for r in merged.values():
        fname = r["function"] + (str(r["variant"]) if r["variant"] else "")
        rep["functions"].append(fname)
        builtins.update(r.get("builtins", []))
        if r["error"]:
            if r.get("text_changed"):
                # the prover crashed on a function whose text is not the one its contract was attached to: contract / code mismatch
                rep["obligations"].append({"name": f"{fname}/spec-attach", "status": "drift", "time": 0,
                                           "detail": "prover error on a changed function (contract must be re-attached): " + r["error"][-300:]})
            else:
                rep["defects"].append(f"{fname}: {r['error']}")
            continue
        if r["drift"]:
            rep["obligations"].append({"name": f"{fname}/spec-attach", "status": "drift", "detail": r["drift"], "time": 0})
            continue
        n_real = 0
        # a return / loop body / precondition is vacuous only if EVERY path reaching it is infeasible
        groups = {}
        for o in r["obligations"]:
            if o["expect"] == "refutable":
                covers += 1
                base = o["name"].split("#")[0] if "cover@" in o["name"] else o["name"]
                groups.setdefault(base, []).append(o["status"])
                continue
            n_real += 1
            rep["obligations"].append(o)
        for base, sts in groups.items():
            if all(x == "vacuous" for x in sts):
                vac += 1
                if r.get("restructured"):
                    # the code was restructured since the contract was attached: dead code under the contract is a mismatch
                    # to be re-attached (undecided), not a defect of the checker
                    rep["obligations"].append({"name": base, "status": "drift", "time": 0, "expect": "valid", "kind": "cover",
                                               "detail": "unreachable under the contract after the function was restructured"})
                else:
                    rep["defects"].append(f"vacuity: {base} unreachable on every path (hypotheses unsatisfiable)")
        if n_real == 0:
            rep["defects"].append(f"{fname}: zero obligations generated")
    rep["obligations"].extend(lem_res)
    rep["hygiene"] = {"cover_canaries": covers, "vacuous": vac}
    for k in keys:
        sp = REG.fns[k]
        if sp.trusted:
            rep["trusted"].append(f"assumed contract (body not verified): {k} {sp.note}")
    rep["trusted"].append("builtin contract table entries used: " + ", ".join(sorted(builtins)))
    # what a proof assumes about its inputs: the requires of each entry point and the assumed behaviour of callbacks
    rep["entry_preconditions"] = {k: list(REG.fns[k].requires) for k in keys if REG.fns[k].requires and not REG.fns[k].trusted}
    rep["callback_assumptions"] = {n: (("pure deterministic function" if d["pure"] else "arbitrary result") + (f"; every result satisfies: {d['post']}" if d.get("post") else ""))
                                   for n, d in REG.funs.items()}
    rep["lemma_axioms"] = ["pow2: pow2(0)=1, pow2(k)=2*pow2(k-1), pow2(k)>=1 (bridge: 1<<k == 2**k for k>=0)",
                           "float_inf >= 1e308 (A2)", "recursive spec functions: unfolding axioms (definitions)",
                           "bv64 lemmas bridged to Int for 0 <= i < 2^62 (A9)"]
    return rep

"""Lemma groups.  A lemma is a closed universally quantified fact; it is *proved on every run*
(kind bv64: as a 64-bit bit-vector validity query with up/lo defined by the bit operations and all
variables in [0, 2^62); kind smt: as an Int/Real query from the other hypotheses it names) and only
then imported as a hypothesis into the functions that list its group."""
from __future__ import annotations

import ast

import z3

from .expr import LO, UP, Eval, Unsupported
from .types import INT, V, parse_type, sort_of

RANGE = 2 ** 62


def _lemma_term(ex, lem, int_mode=True):
    """build ForAll over Int using the executor's translator (spec mode, empty state)"""
    from .symexec import State
    st = State()
    bound = {}
    bvs = []
    for v in lem.vars:
        t = parse_type(lem.var_sorts.get(v, "int"))
        c = z3.Const(f"{v}!lem_{lem.name}", sort_of(t))
        bound[v] = V(t, c)
        bvs.append(c)
    ev = Eval(ex, st, True, bound)
    body = ev.boolean(ex.parse_clause(lem.body))
    rng = [z3.And(c >= 0, c < RANGE) for c in bvs if c.sort() == z3.IntSort()] if lem.kind == "bv64" else []
    if lem.kind == "induction":
        rng = [bound[lem.on].z >= 0]
    full = z3.Implies(z3.And(*rng), body) if rng else body
    pats = [Eval(ex, st, True, bound).expr(ex.parse_clause(p)).z for p in lem.trig]
    if len(pats) > 1:
        return z3.ForAll(bvs, full, patterns=[z3.MultiPattern(*pats)])
    if pats:
        return z3.ForAll(bvs, full, patterns=pats)
    return z3.ForAll(bvs, full)


def deffn_axioms(ex, groups):
    from .expr import ufun
    from .symexec import State
    out = []
    for name, (params, body, group, ret) in ex.reg.deffns.items():
        if group not in groups:
            continue
        rt = parse_type(ret)
        f = ufun(name, [z3.IntSort()] * len(params), sort_of(rt))
        cs = [z3.Int(f"{p}!def_{name}") for p in params]
        ev = Eval(ex, State(), True, {p: V(INT, c) for p, c in zip(params, cs)})
        b = ev.expr(ex.parse_clause(body))
        out.append(z3.ForAll(cs, f(*cs) == b.z, patterns=[f(*cs)]))
    return out


def pow2_axioms():
    """mathematical facts about 2**k; the bridge `1 << k == 2**k for k >= 0` is Python's semantics (A9)"""
    from .expr import POW2
    k = z3.Int("k!pow2")
    return [POW2(0) == 1,
            z3.ForAll([k], z3.Implies(k >= 1, POW2(k) == 2 * POW2(k - 1)), patterns=[POW2(k)]),
            z3.ForAll([k], z3.Implies(k >= 0, POW2(k) >= 1), patterns=[POW2(k)])]


def recfn_axioms(ex, groups):
    from .expr import ufun
    from .symexec import State
    out = []
    for name, rf in ex.reg.recfns.items():
        if rf["group"] not in groups:
            continue
        ats = [parse_type(t, ex.generics) for _, t in rf["params"]]
        rt = parse_type(rf["ret"], ex.generics)
        f = ufun(name, [sort_of(t) for t in ats], sort_of(rt))
        cs = [z3.Const(f"{p}!rec_{name}", sort_of(t)) for (p, _), t in zip(rf["params"], ats)]
        bound = {p: V(t, c) for (p, _), t, c in zip(rf["params"], ats, cs)}
        on = bound[rf["on"]].z
        from .expr import coerce_to
        base = coerce_to(Eval(ex, State(), True, bound).expr(ex.parse_clause(rf["base"])), rt)
        step = coerce_to(Eval(ex, State(), True, bound).expr(ex.parse_clause(rf["step"])), rt)
        bw = Eval(ex, State(), True, bound).boolean(ex.parse_clause(rf.get("base_when") or f"{rf['on']} <= 0"))
        out.append(z3.ForAll(cs, z3.Implies(bw, f(*cs) == base.z), patterns=[f(*cs)]))
        out.append(z3.ForAll(cs, z3.Implies(z3.Not(bw), f(*cs) == step.z), patterns=[f(*cs)]))
    return out


def induction_obligations(ex, lem):
    """(base, step) formulas for an induction lemma over lem.on"""
    from .symexec import State
    consts = {}
    for v in lem.vars:
        t = parse_type(lem.var_sorts.get(v, "int"), ex.generics)
        consts[v] = V(t, z3.Const(f"{v}!ind_{lem.name}", sort_of(t)))
    k = consts[lem.on].z

    def body(kval):
        b = dict(consts)
        b[lem.on] = V(INT, kval)
        return Eval(ex, State(), True, b).boolean(ex.parse_clause(lem.body))

    return body(z3.IntVal(0)), z3.Implies(z3.And(k >= 0, body(k)), body(k + 1))


def prove_induction(ex, lem, timeout_ms=20000):
    hyps = recfn_axioms(ex, [lem.group] + list(lem.uses)) + deffn_axioms(ex, [lem.group] + list(lem.uses))
    for other in ex.reg.lemmas.values():
        if other.name != lem.name and (other.name in lem.uses):
            hyps.append(_lemma_term(ex, other))
    base, step = induction_obligations(ex, lem)
    res = []
    for nm, goal in (("base", base), ("step", step)):
        s = z3.Solver()
        s.set("timeout", timeout_ms)
        s.add(*hyps)
        s.add(z3.Not(goal))
        r = s.check()
        res.append((nm, str(r), str(s.model())[:600] if r == z3.sat else ""))
    return res


def lemma_formulas(ex, groups):
    out = deffn_axioms(ex, groups) + recfn_axioms(ex, groups)
    if "pow2" in groups:
        out.extend(pow2_axioms())
    for lem in ex.reg.lemmas.values():
        if lem.group in groups or lem.name in groups:
            out.append(_lemma_term(ex, lem))
    return out


# ---------------------------------------------------------------- bv64 proofs
class _BV(ast.NodeVisitor):
    """tiny evaluator of lemma bodies over 64-bit vectors: names, ints, + - comparisons, and/or/not,
    implies(), iff(), up(), lo()"""

    def __init__(self, env):
        self.env = env

    def ev(self, n):
        if isinstance(n, ast.Name):
            return self.env[n.id]
        if isinstance(n, ast.Constant):
            if isinstance(n.value, bool):
                return z3.BoolVal(n.value)
            return z3.BitVecVal(n.value, 64)
        if isinstance(n, ast.BinOp):
            a, b = self.ev(n.left), self.ev(n.right)
            if isinstance(n.op, ast.Add):
                return a + b
            if isinstance(n.op, ast.Sub):
                return a - b
            if isinstance(n.op, ast.BitOr):
                return a | b
            if isinstance(n.op, ast.BitAnd):
                return a & b
        if isinstance(n, ast.UnaryOp) and isinstance(n.op, ast.Not):
            return z3.Not(self.ev(n.operand))
        if isinstance(n, ast.BoolOp):
            vs = [self.ev(v) for v in n.values]
            return z3.And(*vs) if isinstance(n.op, ast.And) else z3.Or(*vs)
        if isinstance(n, ast.Compare):
            left = self.ev(n.left)
            cs = []
            for op, r in zip(n.ops, n.comparators):
                right = self.ev(r)
                cs.append({ast.Lt: lambda: left < right, ast.LtE: lambda: left <= right, ast.Gt: lambda: left > right,
                           ast.GtE: lambda: left >= right, ast.Eq: lambda: left == right,
                           ast.NotEq: lambda: left != right}[type(op)]())  # signed comparisons
                left = right
            return z3.And(*cs)
        if isinstance(n, ast.Call) and isinstance(n.func, ast.Name):
            f = n.func.id
            a = [self.ev(x) for x in n.args]
            if f == "implies":
                return z3.Implies(a[0], a[1])
            if f == "iff":
                return a[0] == a[1]
            if f == "up":
                return a[0] | (a[0] + 1)
            if f == "lo":
                return a[0] & (a[0] + 1)
            from .spec import REG
            if f in REG.deffns:
                params, body, _, _ = REG.deffns[f]
                return _BV(dict(zip(params, a))).ev(ast.parse(body, mode="eval").body)
        raise Unsupported("bv lemma syntax: " + ast.dump(n)[:80])


def prove_bv64(lem, timeout_ms=20000):
    env = {v: z3.BitVec(v, 64) for v in lem.vars}
    body = _BV(env).ev(ast.parse(lem.body, mode="eval").body)
    s = z3.Solver()
    s.set("timeout", timeout_ms)
    for v in env.values():
        s.add(v >= 0, v < z3.BitVecVal(RANGE, 64))
    s.add(z3.Not(body))
    r = s.check()
    return str(r), (str(s.model()) if r == z3.sat else "")

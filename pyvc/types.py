"""Sorts and values of the VC generator (DESIGN 3.2).

Python values are modelled as *values* (no reference identity): int -> Int, float -> Real
(assumption A2), bool -> Bool, list[T] -> datatype (len, Array Int T), dict/set -> datatypes
over arrays, tuples -> product datatypes, Optional -> option datatype, generic hashables ->
uninterpreted sorts.  Value semantics is sound only in the absence of aliasing between two
mutable names; `lint_aliasing` in symexec rejects functions that create such aliases.
"""
from __future__ import annotations

import z3


class T:
    name = "?"

    def __repr__(self):
        return self.name

    def __eq__(self, o):
        return isinstance(o, T) and self.name == o.name

    def __hash__(self):
        return hash(self.name)


class _Prim(T):
    def __init__(self, name):
        self.name = name


INT = _Prim("int")
REAL = _Prim("real")
BOOL = _Prim("bool")
NONE = _Prim("none")


class TList(T):
    def __init__(self, elem: T):
        self.elem = elem
        self.name = f"list[{elem.name}]"


class TMap(T):
    """ghost total map (spec only): Array K V"""

    def __init__(self, k: T, v: T):
        self.k, self.v = k, v
        self.name = f"map[{k.name},{v.name}]"


class TDict(T):
    def __init__(self, k: T, v: T):
        self.k, self.v = k, v
        self.name = f"dict[{k.name},{v.name}]"


class TSet(T):
    def __init__(self, k: T):
        self.k = k
        self.name = f"set[{k.name}]"


class TTuple(T):
    def __init__(self, items):
        self.items = tuple(items)
        self.name = "tuple[" + ",".join(i.name for i in self.items) + "]"


class TOpt(T):
    def __init__(self, t: T):
        self.t = t
        self.name = f"opt[{t.name}]"


class TU(T):
    """uninterpreted sort with equality (generic hashable node/state/solution types)"""

    def __init__(self, name):
        self.uname = name
        self.name = f"U<{name}>"


class TObj(T):
    """instance of a class under contract; fields live flattened in the state"""

    def __init__(self, cls):
        self.cls = cls
        self.name = f"obj<{cls}>"


class TFun(T):
    """pure deterministic callback modelled as an uninterpreted function (A4)"""

    def __init__(self, args, ret, fname, pure=True):
        self.args, self.ret, self.fname, self.pure = tuple(args), ret, fname, pure
        self.name = f"fun<{fname}>"


_sorts: dict[str, object] = {}
_dt: dict[str, object] = {}


def _mkname(t: T) -> str:
    return (t.name.replace("[", "_").replace("]", "").replace(",", "_").replace("<", "_").replace(">", "")
            .replace(" ", ""))


def sort_of(t: T):
    if t.name in _sorts:
        return _sorts[t.name]
    if t is INT or t == INT:
        s = z3.IntSort()
    elif t == REAL:
        s = z3.RealSort()
    elif t == BOOL:
        s = z3.BoolSort()
    elif t == NONE:
        s = z3.BoolSort()  # unit: value irrelevant
    elif isinstance(t, TList):
        d = z3.Datatype(_mkname(t))
        d.declare("mk_" + _mkname(t), ("len_" + _mkname(t), z3.IntSort()),
                  ("arr_" + _mkname(t), z3.ArraySort(z3.IntSort(), sort_of(t.elem))))
        s = d.create()
        _dt[t.name] = s
    elif isinstance(t, TMap):
        s = z3.ArraySort(sort_of(t.k), sort_of(t.v))
    elif isinstance(t, TDict):
        d = z3.Datatype(_mkname(t))
        d.declare("mk_" + _mkname(t), ("dom_" + _mkname(t), z3.ArraySort(sort_of(t.k), z3.BoolSort())),
                  ("val_" + _mkname(t), z3.ArraySort(sort_of(t.k), sort_of(t.v))),
                  ("card_" + _mkname(t), z3.IntSort()))
        s = d.create()
        _dt[t.name] = s
    elif isinstance(t, TSet):
        d = z3.Datatype(_mkname(t))
        d.declare("mk_" + _mkname(t), ("mem_" + _mkname(t), z3.ArraySort(sort_of(t.k), z3.BoolSort())),
                  ("card_" + _mkname(t), z3.IntSort()))
        s = d.create()
        _dt[t.name] = s
    elif isinstance(t, TTuple):
        d = z3.Datatype(_mkname(t))
        d.declare("mk_" + _mkname(t), *[(f"f{i}_" + _mkname(t), sort_of(it)) for i, it in enumerate(t.items)])
        s = d.create()
        _dt[t.name] = s
    elif isinstance(t, TOpt):
        d = z3.Datatype(_mkname(t))
        d.declare("none_" + _mkname(t))
        d.declare("some_" + _mkname(t), ("val_" + _mkname(t), sort_of(t.t)))
        s = d.create()
        _dt[t.name] = s
    elif isinstance(t, TU):
        s = z3.DeclareSort("U_" + t.uname)
    else:
        raise TypeError(f"no sort for {t}")
    _sorts[t.name] = s
    return s


class V:
    """typed symbolic value"""

    __slots__ = ("t", "z")

    def __init__(self, t: T, z):
        self.t, self.z = t, z

    def __repr__(self):
        return f"V({self.t}, {self.z})"


# ---- accessors -------------------------------------------------------------
def list_len(v: V):
    s = sort_of(v.t)
    return s.accessor(0, 0)(v.z)


def list_arr(v: V):
    s = sort_of(v.t)
    return s.accessor(0, 1)(v.z)


def mk_list(t: TList, ln, arr) -> V:
    s = sort_of(t)
    return V(t, s.constructor(0)(ln, arr))


def dict_dom(v: V):
    return sort_of(v.t).accessor(0, 0)(v.z)


def dict_val(v: V):
    return sort_of(v.t).accessor(0, 1)(v.z)


def dict_card(v: V):
    return sort_of(v.t).accessor(0, 2)(v.z)


def mk_dict(t: TDict, dom, val, card) -> V:
    return V(t, sort_of(t).constructor(0)(dom, val, card))


def set_mem(v: V):
    return sort_of(v.t).accessor(0, 0)(v.z)


def set_card(v: V):
    return sort_of(v.t).accessor(0, 1)(v.z)


def mk_set(t: TSet, mem, card) -> V:
    return V(t, sort_of(t).constructor(0)(mem, card))


def mk_tuple(t: TTuple, items) -> V:
    return V(t, sort_of(t).constructor(0)(*items))


def tuple_get(v: V, i: int) -> V:
    return V(v.t.items[i], sort_of(v.t).accessor(0, i)(v.z))


def opt_none(t: TOpt) -> V:
    return V(t, sort_of(t).constructor(0)())


def opt_some(t: TOpt, z) -> V:
    return V(t, sort_of(t).constructor(1)(z))


def opt_is_none(v: V):
    return sort_of(v.t).recognizer(0)(v.z)


def opt_val(v: V) -> V:
    return V(v.t.t, sort_of(v.t).accessor(1, 0)(v.z))


_fresh_n = [0]


def fresh(t: T, hint: str) -> V:
    _fresh_n[0] += 1
    return V(t, z3.Const(f"{hint}!{_fresh_n[0]}", sort_of(t)))


def parse_type(s: str, generics=()) -> T:
    """'int' 'float' 'bool' 'list[int]' 'dict[int,int]' 'set[int]' 'tuple[int,float]' 'opt[int]' 'U<S>' 'map[int,int]'"""
    s = s.strip()
    if s in ("int",):
        return INT
    if s in ("float", "real"):
        return REAL
    if s == "bool":
        return BOOL
    if s in ("None", "none"):
        return NONE
    if s.startswith("U<") and s.endswith(">"):
        return TU(s[2:-1])
    if s.startswith("obj<") and s.endswith(">"):
        return TObj(s[4:-1])
    if s in generics:
        return TU(s)
    for head, ctor, n in (("list", TList, 1), ("set", TSet, 1), ("opt", TOpt, 1), ("dict", TDict, 2),
                          ("map", TMap, 2), ("tuple", None, -1)):
        if s.startswith(head + "[") and s.endswith("]"):
            inner = s[len(head) + 1:-1]
            parts, depth, cur = [], 0, ""
            for ch in inner:
                if ch in "[<":
                    depth += 1
                elif ch in "]>":
                    depth -= 1
                if ch == "," and depth == 0:
                    parts.append(cur)
                    cur = ""
                else:
                    cur += ch
            parts.append(cur)
            ts = [parse_type(p, generics) for p in parts]
            if head == "tuple":
                return TTuple(ts)
            return ctor(*ts)
    raise TypeError(f"cannot parse type {s!r}")


class TRec(TTuple):
    """named record (dataclass-like value, e.g. solvor.types.Result)"""

    def __init__(self, rname, fields):
        self.rname = rname
        self.fields = list(fields.keys())
        super().__init__(list(fields.values()))
        self.name = f"rec<{rname}:" + ",".join(f"{k}={v.name}" for k, v in fields.items()) + ">"

    def index(self, f):
        return self.fields.index(f)

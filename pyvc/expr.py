"""Python expression AST -> typed z3 term.  Shared by code and contract clauses (DESIGN 2.1/3.1)."""
from __future__ import annotations

import ast
import os

import z3

from .types import fresh  # noqa
from .types import (BOOL, INT, NONE, REAL, TDict, TFun, TList, TMap, TObj, TOpt, TSet, TTuple, TU, T, V, set_mem,
                    dict_card, dict_dom, dict_val, fresh, list_arr, list_len, mk_dict, mk_list, mk_set, mk_tuple,
                    opt_is_none, opt_none, opt_some, opt_val, parse_type, set_card, set_mem, sort_of, tuple_get)


_STRLITS: dict = {}  # string literal -> index (per process; names are only used inside one query)


class Unsupported(Exception):
    pass


UP = z3.Function("up", z3.IntSort(), z3.IntSort())  # up(i) = i | (i+1)
LO = z3.Function("lo", z3.IntSort(), z3.IntSort())  # lo(i) = i & (i+1)
BOR = z3.Function("bor", z3.IntSort(), z3.IntSort(), z3.IntSort())
BAND = z3.Function("band", z3.IntSort(), z3.IntSort(), z3.IntSort())
SHL = z3.Function("shl", z3.IntSort(), z3.IntSort(), z3.IntSort())
POW2 = z3.Function("pow2", z3.IntSort(), z3.IntSort())  # 1 << k (k >= 0)
INF = z3.Real("float_inf")  # float("inf"): only compared; objective values are assumed finite (below it)

_ufuns: dict[str, object] = {}


def ufun(name, argsorts, retsort):
    k = name
    if k not in _ufuns:
        _ufuns[k] = z3.Function(name, *argsorts, retsort)
    return _ufuns[k]


def coerce_num(a: V, b: V):
    if a.t == REAL and b.t == INT:
        return a, V(REAL, z3.ToReal(b.z))
    if a.t == INT and b.t == REAL:
        return V(REAL, z3.ToReal(a.z)), b
    if a.t == BOOL and b.t in (INT, REAL):
        return coerce_num(V(INT, z3.If(a.z, 1, 0)), b)
    if b.t == BOOL and a.t in (INT, REAL):
        return coerce_num(a, V(INT, z3.If(b.z, 1, 0)))
    return a, b


def coerce_to(v: V, t: T) -> V:
    if v.t == t:
        return v
    if t == REAL and v.t == INT:
        return V(REAL, z3.ToReal(v.z))
    if t == REAL and v.t == BOOL:
        return V(REAL, z3.If(v.z, z3.RealVal(1), z3.RealVal(0)))
    if t == INT and v.t == BOOL:
        return V(INT, z3.If(v.z, 1, 0))
    if isinstance(t, TOpt):
        if v.t == NONE:
            return opt_none(t)
        if v.t == t.t or (t.t == REAL and v.t == INT):
            return opt_some(t, coerce_to(v, t.t).z)
    if isinstance(t, TU) and t.uname == "opaque":
        return fresh(t, "as_opaque")  # contents are not tracked behind an opaque type
    if isinstance(t, TTuple) and isinstance(v.t, TTuple) and len(t.items) == len(v.t.items):
        return mk_tuple(t, [coerce_to(tuple_get(v, i), it).z for i, it in enumerate(t.items)])
    if isinstance(t, TList) and isinstance(v.t, TTuple) and not v.t.items:
        # the empty tuple where a sequence is expected (records hold sequences as lists): the empty sequence
        return mk_list(t, z3.IntVal(0), fresh(TMap(INT, t.elem), "empty").z)
    if isinstance(t, TList) and isinstance(v.t, TList) and t.elem == REAL and v.t.elem == INT:
        # list[int] used where list[float] expected: element-wise conversion is not expressible as a term;
        raise Unsupported(f"list[int] -> list[float] coercion")
    raise Unsupported(f"cannot coerce {v.t} to {t}")


class Eval:
    """Evaluates expressions in a state.  `ob(kind, goal)` receives side obligations (bounds etc.);
    in spec mode no obligations are generated (clauses are total)."""

    def __init__(self, ex, state, spec_mode=False, bound=None, old_state=None, result=None, pc_extra=None):
        self.ex = ex  # the executor (for registry, call handling, obligations)
        self.st = state
        self.spec = spec_mode
        self.bound = dict(bound or {})
        self.old = old_state
        self.result = result
        self.guard = list(pc_extra or [])  # short-circuit guards in force

    # -- helpers
    def sub(self, **kw):
        e = Eval(self.ex, kw.get("state", self.st), self.spec, kw.get("bound", self.bound), self.old, self.result,
                 self.guard)
        return e

    def ob(self, kind, goal, node=None):
        if self.spec:
            return
        self.ex.side_obligation(self.st, kind, goal, node, self.guard)

    def truth(self, v: V):
        if v.t == BOOL:
            return v.z
        if v.t == INT:
            return v.z != 0
        if v.t == REAL:
            return v.z != 0
        if isinstance(v.t, TList):
            return list_len(v) > 0
        if isinstance(v.t, TDict):
            return dict_card(v) > 0
        if isinstance(v.t, TSet):
            return set_card(v) > 0
        if isinstance(v.t, TOpt):
            if isinstance(v.t.t, (TList, TDict, TSet)):
                return z3.And(z3.Not(opt_is_none(v)), self.truth(opt_val(v)))
            return z3.Not(opt_is_none(v))
        if v.t == NONE:
            return z3.BoolVal(False)
        if isinstance(v.t, TFun):
            # a callable-or-None parameter: whether it is set is not known, but it does not change during the call
            return z3.Bool(f"truthy!{v.t.fname}")
        if isinstance(v.t, TU) and v.t.uname == "opaque":
            # an uninterpreted value: its truth value is not tracked (arbitrary)
            return self.ex.new_sym(BOOL, "truth", self.st).z
        raise Unsupported(f"truthiness of {v.t}")

    def lookup(self, name: str) -> V:
        if name in self.bound:
            return self.bound[name]
        if name in self.st.vars:
            ub = getattr(self.st, "unbound", {}).get(name)
            if ub is not None and not self.spec:
                # python raises UnboundLocalError when a loop variable is read after a loop that never ran
                self.ob("unbound-local", z3.Not(ub), None)
            return self.st.vars[name]
        c = self.ex.constant(name)
        if c is not None:
            return c
        raise Unsupported(f"unknown name {name!r}")

    # -- main dispatch
    def expr(self, n: ast.AST) -> V:
        m = getattr(self, "e_" + type(n).__name__, None)
        if m is None:
            raise Unsupported(f"expression {type(n).__name__}: {ast.unparse(n)[:60]}")
        return m(n)

    def boolean(self, n) -> object:
        return self.truth(self.expr(n))

    def e_Constant(self, n):
        v = n.value
        if v is True or v is False:
            return V(BOOL, z3.BoolVal(v))
        if v is None:
            return V(NONE, z3.BoolVal(True))
        if isinstance(v, int):
            return V(INT, z3.IntVal(v))
        if isinstance(v, float):
            from fractions import Fraction
            fr = Fraction(v)
            fr2 = Fraction(repr(v))  # decimal literal as written (A2: floats are reals)
            return V(REAL, z3.RealVal(str(fr2)))
        if isinstance(v, str):
            # a string literal is an interned constant of the opaque sort: equal literals are the same constant,
            # different literals are different values (strid is injective on literals); nothing else about
            # strings is interpreted
            t = TU("opaque")
            if not getattr(self.ex.spec, "str_literals", False):
                return self.ex.new_sym(t, "str", self.st)  # default: strings are not interpreted at all
            k = _STRLITS.setdefault(v, len(_STRLITS))
            c = z3.Const("strlit!%d" % k, sort_of(t))
            fact = z3.Function("strid", sort_of(t), z3.IntSort())(c) == k
            if not any(fact.eq(h) for h in self.st.pc[-60:]):
                self.st.pc.append(fact)
            return V(t, c)
        raise Unsupported(f"constant {v!r}")

    def e_Name(self, n):
        if n.id in self.st.vars and isinstance(self.st.vars[n.id].t, TFun):
            return self.st.vars[n.id]
        if n.id == "result" and self.result is not None and self.spec:
            return self.result
        return self.lookup(n.id)

    def e_Attribute(self, n):
        # self.f / obj.f flattened in state
        if isinstance(n.value, ast.Name):
            key = f"{n.value.id}.{n.attr}"
            if key in self.bound:
                return self.bound[key]
            if key in self.st.vars:
                return self.st.vars[key]
            base = None
            if n.value.id == "result" and self.result is not None and self.spec:
                base = self.result
            else:
                try:
                    base = self.lookup(n.value.id)
                except Unsupported:
                    pass
            if base is not None:
                return self.ex.attribute(self, base, n.attr, n)
            c = self.ex.constant(key)
            if c is not None:
                return c
            raise Unsupported(f"unknown attribute {key}")
        base = self.expr(n.value)
        return self.ex.attribute(self, base, n.attr, n)

    def e_UnaryOp(self, n):
        v = self.expr(n.operand)
        if isinstance(n.op, ast.Not):
            return V(BOOL, z3.Not(self.truth(v)))
        if isinstance(n.op, ast.USub):
            if v.t == BOOL:
                v = coerce_to(v, INT)
            return V(v.t, -v.z)
        if isinstance(n.op, ast.UAdd):
            return v
        raise Unsupported("unary op")

    def e_BoolOp(self, n):
        # short circuit: later operands are evaluated under the guard of the earlier ones
        vals = []
        saved = list(self.guard)
        try:
            for sub in n.values:
                v = self.expr(sub)
                vals.append(v)
                tv = self.truth(v)
                self.guard.append(tv if isinstance(n.op, ast.And) else z3.Not(tv))
        finally:
            self.guard[:] = saved
        if all(v.t == BOOL for v in vals):
            zs = [v.z for v in vals]
            return V(BOOL, z3.And(*zs) if isinstance(n.op, ast.And) else z3.Or(*zs))
        if len({v.t.name for v in vals}) > 1 and not all(v.t in (INT, REAL, BOOL) for v in vals):
            # operands of different kinds (`while heap and n < limit`): only the truth value is meaningful
            zs = [self.truth(v) for v in vals]
            return V(BOOL, z3.And(*zs) if isinstance(n.op, ast.And) else z3.Or(*zs))
        # value-returning and/or (x or default)
        res = vals[-1]
        for v in reversed(vals[:-1]):
            a, b = v, res
            if a.t != b.t:
                a, b = coerce_num(a, b)
            if a.t != b.t:
                raise Unsupported("and/or of different types")
            tv = self.truth(v)
            res = V(a.t, z3.If(tv, b.z, a.z) if isinstance(n.op, ast.And) else z3.If(tv, a.z, b.z))
        return res

    def e_IfExp(self, n):
        c = self.boolean(n.test)
        saved = list(self.guard)
        self.guard.append(c)
        a = self.expr(n.body)
        self.guard[:] = saved + [z3.Not(c)]
        b = self.expr(n.orelse)
        self.guard[:] = saved
        if a.t != b.t:
            a, b = coerce_num(a, b)
        if a.t != b.t:
            if a.t == NONE and not isinstance(b.t, TOpt):
                a = opt_none(TOpt(b.t)); b = coerce_to(b, a.t)
            elif b.t == NONE and not isinstance(a.t, TOpt):
                b = opt_none(TOpt(a.t)); a = coerce_to(a, b.t)
            elif isinstance(a.t, TOpt):
                b = coerce_to(b, a.t)
            elif isinstance(b.t, TOpt):
                a = coerce_to(a, b.t)
            else:
                raise Unsupported(f"ifexp branches {a.t} vs {b.t}")
        return V(a.t, z3.If(c, a.z, b.z))

    def e_BinOp(self, n):
        op = n.op
        # bit shapes recognised syntactically (A9): X | (X + 1) -> up(X);  X & (X + 1) -> lo(X)
        if isinstance(op, (ast.BitOr, ast.BitAnd)):
            r = n.right
            if (isinstance(r, ast.BinOp) and isinstance(r.op, ast.Add) and isinstance(r.right, ast.Constant)
                    and r.right.value == 1 and ast.dump(r.left) == ast.dump(n.left)):
                x = self.expr(n.left)
                if x.t != INT:
                    raise Unsupported("bit op on non-int")
                self.ob("bitrange", z3.And(x.z >= 0), n)
                return V(INT, (UP if isinstance(op, ast.BitOr) else LO)(x.z))
        if isinstance(op, ast.LShift) and isinstance(n.left, ast.Constant) and n.left.value == 1:
            k = self.expr(n.right)
            if k.t != INT:
                raise Unsupported("shift by non-int")
            self.ob("shift-nonneg", k.z >= 0, n)  # negative shift counts raise ValueError
            return V(INT, POW2(k.z))
        a = self.expr(n.left)
        b = self.expr(n.right)
        # list repetition / concatenation
        if isinstance(op, ast.Mult) and isinstance(a.t, TList) and b.t == INT:
            return self.ex.list_repeat(self, a, b, n)
        if isinstance(op, ast.Mult) and isinstance(b.t, TList) and a.t == INT:
            return self.ex.list_repeat(self, b, a, n)
        if isinstance(op, ast.Add) and isinstance(a.t, TList) and isinstance(b.t, TList):
            return self.ex.list_concat(self, a, b, n)
        if isinstance(op, (ast.BitAnd, ast.BitOr, ast.Sub)) and isinstance(a.t, TSet) and a.t == b.t:
            # set algebra: membership pointwise, cardinality left unspecified (only non-negative)
            r = self.ex.new_sym(a.t, "setop", self.st)
            q = z3.Const("q!setop", sort_of(a.t.k))
            ma, mb, mr = set_mem(a), set_mem(b), set_mem(r)
            comb = {ast.BitAnd: z3.And(ma[q], mb[q]), ast.BitOr: z3.Or(ma[q], mb[q]), ast.Sub: z3.And(ma[q], z3.Not(mb[q]))}[type(op)]
            self.st.pc.append(z3.ForAll([q], mr[q] == comb, patterns=[mr[q]]))
            return r
        if isinstance(op, (ast.BitOr, ast.BitAnd, ast.LShift)):
            if a.t != INT or b.t != INT:
                raise Unsupported("bit op on non-int")
            f = {ast.BitOr: BOR, ast.BitAnd: BAND, ast.LShift: SHL}[type(op)]
            return V(INT, f(a.z, b.z))
        a, b = coerce_num(a, b)
        if a.t == BOOL and b.t == BOOL:
            a, b = coerce_to(a, INT), coerce_to(b, INT)
        if a.t not in (INT, REAL) or b.t != a.t:
            raise Unsupported(f"binop {type(op).__name__} on {a.t},{b.t}: {ast.unparse(n)[:50]}")
        if isinstance(op, (ast.Add, ast.Sub, ast.Mult)):
            r = a.z + b.z if isinstance(op, ast.Add) else (a.z - b.z if isinstance(op, ast.Sub) else a.z * b.z)
            if a.t == REAL and not self.spec and getattr(self.ex, "uses_inf", False):
                # A2: arithmetic on finite floats stays finite (no overflow to +-inf)
                fin = lambda z: z3.And(z != INF, z != -INF)
                if getattr(self.ex.spec, "ext_inf", False) and isinstance(op, ast.Add):
                    # extended reals for +: float('inf') absorbs (inf + x == inf for every x > -inf, as IEEE does); -inf is never
                    # an operand (obligation), so inf - inf / NaN cannot arise
                    self.ob("inf-arith", z3.And(a.z != -INF, b.z != -INF), n)
                    self.st.pc.append(z3.Implies(z3.And(fin(a.z), fin(b.z)), z3.And(r < INF, r > -INF)))
                    return V(a.t, z3.If(z3.Or(a.z == INF, b.z == INF), INF, r))
                if getattr(self.ex.spec, "strict_inf", False) or os.environ.get("PYVC_STRICT_INF"):
                    self.ob("inf-arith", z3.And(fin(a.z), fin(b.z)), n)
                self.st.pc.append(z3.Implies(z3.And(fin(a.z), fin(b.z)), z3.And(r < INF, r > -INF)))
            return V(a.t, r)
        if isinstance(op, ast.Div):
            self.ob("div0", b.z != 0, n)
            ar = a.z if a.t == REAL else z3.ToReal(a.z)
            br = b.z if b.t == REAL else z3.ToReal(b.z)
            return V(REAL, ar / br)
        if isinstance(op, ast.FloorDiv):
            if a.t != INT:
                raise Unsupported("float floordiv")
            self.ob("div0", b.z != 0, n)
            return V(INT, z3.If(b.z > 0, a.z / b.z, (-a.z) / (-b.z)))
        if isinstance(op, ast.Mod):
            if a.t != INT:
                raise Unsupported("float mod")
            self.ob("div0", b.z != 0, n)
            q = z3.If(b.z > 0, a.z / b.z, (-a.z) / (-b.z))
            return V(INT, a.z - b.z * q)
        if isinstance(op, ast.Pow):
            if isinstance(n.right, ast.Constant) and n.right.value == 2:
                return V(a.t, a.z * a.z)
            raise Unsupported("pow")
        raise Unsupported(f"binop {type(op).__name__}")

    def e_Compare(self, n):
        left = self.expr(n.left)
        conj = []
        saved = list(self.guard)
        try:
            for op, rn in zip(n.ops, n.comparators):
                right = self.expr(rn)
                c = self.compare(op, left, right, n)
                conj.append(c)
                self.guard.append(c)
                left = right
        finally:
            self.guard[:] = saved
        return V(BOOL, z3.And(*conj) if len(conj) > 1 else conj[0])

    def compare(self, op, a: V, b: V, n):
        if isinstance(op, (ast.Is, ast.IsNot, ast.Eq, ast.NotEq)) and (a.t == NONE or b.t == NONE):
            other = b if a.t == NONE else a
            if other.t == NONE:
                r = z3.BoolVal(True)
            elif isinstance(other.t, TOpt):
                r = opt_is_none(other)
            else:
                r = z3.BoolVal(False)
            return r if isinstance(op, (ast.Is, ast.Eq)) else z3.Not(r)
        if isinstance(op, (ast.In, ast.NotIn)):
            r = self.ex.contains(self, b, a, n)
            return r if isinstance(op, ast.In) else z3.Not(r)
        if isinstance(a.t, TOpt) and not isinstance(b.t, TOpt):
            self.ob("none-deref", z3.Not(opt_is_none(a)), n) if not isinstance(op, (ast.Eq, ast.NotEq)) else None
            if isinstance(op, (ast.Eq, ast.NotEq)):
                bb = coerce_to(b, a.t)
                r = a.z == bb.z
                return r if isinstance(op, ast.Eq) else z3.Not(r)
            a = opt_val(a)
        if isinstance(b.t, TOpt) and not isinstance(a.t, TOpt):
            if isinstance(op, (ast.Eq, ast.NotEq)):
                aa = coerce_to(a, b.t)
                r = aa.z == b.z
                return r if isinstance(op, ast.Eq) else z3.Not(r)
            self.ob("none-deref", z3.Not(opt_is_none(b)), n)
            b = opt_val(b)
        a, b = coerce_num(a, b)
        if a.t != b.t:
            raise Unsupported(f"compare {a.t} with {b.t}: {ast.unparse(n)[:60]}")
        if isinstance(op, ast.Eq) or isinstance(op, ast.Is):
            return a.z == b.z
        if isinstance(op, ast.NotEq) or isinstance(op, ast.IsNot):
            return a.z != b.z
        if a.t not in (INT, REAL):
            if isinstance(a.t, TTuple) and all(t in (INT, REAL) for t in a.t.items):
                return self.lex(op, a, b)
            raise Unsupported(f"ordering on {a.t}")
        if isinstance(op, ast.Lt):
            return a.z < b.z
        if isinstance(op, ast.LtE):
            return a.z <= b.z
        if isinstance(op, ast.Gt):
            return a.z > b.z
        if isinstance(op, ast.GtE):
            return a.z >= b.z
        raise Unsupported("compare op")

    def lex(self, op, a, b):
        n = len(a.t.items)
        strict = isinstance(op, (ast.Lt, ast.Gt))
        less = isinstance(op, (ast.Lt, ast.LtE))
        res = z3.BoolVal(not strict)
        for i in reversed(range(n)):
            x, y = tuple_get(a, i).z, tuple_get(b, i).z
            res = z3.If(x == y, res, (x < y) if less else (x > y))
        return res

    def e_Subscript(self, n):
        base = self.expr(n.value)
        if isinstance(n.slice, ast.Slice):
            return self.ex.slice(self, base, n.slice, n)
        if isinstance(base.t, TList):
            idx = self.expr(n.slice)
            if isinstance(idx.t, TOpt) and idx.t.t == INT:
                self.ob("none-deref", z3.Not(opt_is_none(idx)), n)
                idx = opt_val(idx)
            if idx.t != INT:
                raise Unsupported("non-int list index")
            ln = list_len(base)
            i = idx.z
            if isinstance(n.slice, ast.UnaryOp) and isinstance(n.slice.op, ast.USub) and isinstance(n.slice.operand, ast.Constant):
                i = ln + idx.z
            self.ob("bounds", z3.And(0 <= i, i < ln), n)
            return V(base.t.elem, z3.Select(list_arr(base), i))
        if isinstance(base.t, TMap):
            idx = coerce_to(self.expr(n.slice), base.t.k)
            return V(base.t.v, z3.Select(base.z, idx.z))
        if isinstance(base.t, TDict):
            k = coerce_to(self.expr(n.slice), base.t.k)
            self.ob("key", z3.Select(dict_dom(base), k.z), n)
            return V(base.t.v, z3.Select(dict_val(base), k.z))
        if isinstance(base.t, TTuple):
            if isinstance(n.slice, ast.Constant) and isinstance(n.slice.value, int):
                return tuple_get(base, n.slice.value % len(base.t.items))
            raise Unsupported("symbolic tuple index")
        if isinstance(base.t, TU) and base.t.uname == "opaque":
            self.expr(n.slice)
            return self.ex.new_sym(base.t, "opq", self.st)
        raise Unsupported(f"subscript on {base.t}")

    def e_Tuple(self, n):
        vs = [self.expr(e) for e in n.elts]
        t = TTuple([v.t for v in vs])
        return mk_tuple(t, [v.z for v in vs])

    def e_List(self, n):
        return self.ex.list_literal(self, n)

    def e_Call(self, n):
        return self.ex.call(self, n)

    def e_Compare_chain(self, n):  # pragma: no cover
        raise Unsupported("chain")

    def e_JoinedStr(self, n):
        return self.ex.new_sym(TU("opaque"), "fstr", self.st)

    def e_ListComp(self, n):
        return self.ex.listcomp(self, n)

    def e_Set(self, n):
        vs = [self.expr(e) for e in n.elts]
        t = TSet(vs[0].t)
        mem = z3.K(sort_of(vs[0].t), z3.BoolVal(False))
        card = z3.IntVal(0)
        for v in vs:
            card = z3.If(z3.Select(mem, v.z), card, card + 1)
            mem = z3.Store(mem, v.z, z3.BoolVal(True))
        from .types import mk_set
        return mk_set(t, mem, card)

    def e_Dict(self, n):
        if not n.keys or any(k is None for k in n.keys):
            raise Unsupported("empty dict literal without a declared type / dict unpacking")
        ks = [self.expr(k) for k in n.keys]
        vs = [self.expr(v) for v in n.values]
        kt, vt = ks[0].t, vs[0].t
        if any(v.t != vt for v in vs):
            vs = [coerce_to(v, REAL) for v in vs]
            vt = REAL
        t = TDict(kt, vt)
        dom = z3.K(sort_of(kt), z3.BoolVal(False))
        val = fresh(TMap(kt, vt), "dlit").z
        card = z3.IntVal(0)
        for k, v in zip(ks, vs):
            card = z3.If(z3.Select(dom, k.z), card, card + 1)
            dom = z3.Store(dom, k.z, z3.BoolVal(True))
            val = z3.Store(val, k.z, v.z)
        from .types import mk_dict
        return mk_dict(t, dom, val, card)

    def e_DictComp(self, n):
        from .builtins import do_dictcomp
        return do_dictcomp(self.ex, self, n)

    def e_SetComp(self, n):
        from .builtins import do_setcomp
        return do_setcomp(self.ex, self, n)

    def e_Lambda(self, n):
        raise Unsupported("lambda")

"""Sidecar contract registry (DESIGN 2.1).

Contracts are Python data; every clause is a Python *expression string* over the function's own
identifiers plus the spec vocabulary (forall/exists/implies/iff/old/result/len/...).  The same
translator (pyvc.symexec.Eval) reads code expressions and contract clauses.
"""
from __future__ import annotations

from dataclasses import dataclass, field


@dataclass
class LoopSpec:
    invariants: list[str] = field(default_factory=list)
    decreases: str | None = None  # integer measure, must decrease and stay >= 0 while the guard holds
    index: str | None = None  # name under which the hidden position of a for-loop over a sequence is visible
    done: str | None = None  # name of the ghost "already visited" set for loops over sets / dicts
    ghost: dict[str, str] = field(default_factory=dict)  # ghost updates executed at the end of each iteration


@dataclass
class FnSpec:
    file: str
    qualname: str
    prop: str = ""  # property id(s) this contract serves
    types: dict[str, str] = field(default_factory=dict)  # params / locals whose type the annotations don't give
    ret: str | None = None
    requires: list[str] = field(default_factory=list)
    ensures: list[str] = field(default_factory=list)
    modifies: list[str] = field(default_factory=list)  # 'self.f' fields / ghost / mutable params / captured names
    decreases: str | None = None
    loops: dict[int, LoopSpec] = field(default_factory=dict)
    ghost_return: dict[str, str] = field(default_factory=dict)  # ghost var := expr, evaluated at every return
    ghost_after: list[tuple[str, str, str]] = field(default_factory=list)  # (stmt source pattern, ghost var, expr)
    ghost_before: list[tuple[str, str, str]] = field(default_factory=list)  # same, executed before the statement
    variants: list[dict[str, str]] = field(default_factory=list)  # type overrides, one proof per variant
    captures: dict[str, str] = field(default_factory=dict)  # closures: enclosing locals visible, with types
    generics: tuple[str, ...] = ()
    trusted: bool = False  # contract assumed, body not verified (listed in evidence)
    note: str = ""
    cover: bool = True
    raises_ok: bool = False  # reaching `raise` is allowed (paths end, nothing to prove)
    lemmas: list[str] = field(default_factory=list)  # names of lemma groups to import as hypotheses
    timeout_ms: int | None = None
    shards: int = 1  # obligations of a large function are discharged by this many processes (each re-runs the symbolic execution)
    prefer_cvc5: bool = False  # try cvc5 before z3 (functions whose obligations z3 only answers after a long search)
    dead_returns_ok: bool = False  # some returns are unreachable under the requires by design (no return cover canaries)
    ext_inf: bool = False  # `+` on reals is IEEE-like for +inf: inf + x == inf (x > -inf); -inf operands are excluded by obligation
    str_literals: bool = False  # string literals are interned constants (equal literals equal, different literals different) instead of
    #                             arbitrary opaque values; opt-in, because the extra facts are noise for proofs that never compare strings
    strict_inf: bool = True  # every +, -, * on reals must have operands other than +-inf (obligation `inf-arith`): no inf - inf / nan

    @property
    def key(self):
        return f"{self.file}::{self.qualname}"


@dataclass
class ClassSpec:
    file: str
    name: str
    fields: dict[str, str]  # 'f' -> type (real fields)
    ghost: dict[str, str] = field(default_factory=dict)  # ghost fields


@dataclass
class Macro:
    name: str
    params: list[str]
    clauses: list[str]  # conjunction


@dataclass
class GhostFn:
    name: str
    args: list[str]
    ret: str


@dataclass
class Lemma:
    """universally quantified fact.  kind='bv64': proved on bit-vectors of width 64 for values in
    [0, 2^62) (bridge A9) with up/lo defined by the bit operations; kind='smt': proved from `given`
    hypotheses as an ordinary obligation; kind='induction': base and step obligations over `var`."""
    name: str
    vars: list[str]
    body: str
    kind: str = "smt"
    group: str = ""
    trig: list[str] = field(default_factory=list)
    var_sorts: dict[str, str] = field(default_factory=dict)
    on: str = ""  # induction variable
    uses: list[str] = field(default_factory=list)  # lemma groups/names available while proving this one


class Registry:
    def __init__(self):
        self.fns: dict[str, FnSpec] = {}
        self.classes: dict[str, ClassSpec] = {}
        self.macros: dict[str, Macro] = {}
        self.ghostfns: dict[str, GhostFn] = {}
        self.lemmas: dict[str, Lemma] = {}
        self.axioms: list[tuple[str, str]] = []  # (name, clause) trusted axioms: listed in evidence
        self.records: dict = {}
        self.funs: dict = {}  # callback name -> dict(args, ret, pure)
        self.recfns: dict = {}  # name -> dict(params, ret, on, base, step, group)
        self.deffns: dict = {}  # name -> (params, body, group, ret): defined (non-recursive) spec functions
        self.record_defaults: dict = {}
        self.consts: dict = {}

    def fn(self, file, qualname, **kw) -> FnSpec:
        loops = kw.pop("loops", {})
        ls = {}
        for k, v in loops.items():
            ls[k] = v if isinstance(v, LoopSpec) else LoopSpec(**v)
        s = FnSpec(file, qualname, loops=ls, **kw)
        self.fns[s.key] = s
        return s

    def cls(self, file, name, fields, ghost=None):
        c = ClassSpec(file, name, fields, ghost or {})
        self.classes[name] = c
        return c

    def define(self, name, params, clauses):
        self.macros[name] = Macro(name, params, clauses)

    def ghostfn(self, name, args, ret):
        self.ghostfns[name] = GhostFn(name, args, ret)

    def deffn(self, name, params, body, group="", ret="bool"):
        self.deffns[name] = (params, body, group, ret)

    def callback(self, name, args, ret, pure=True, post=None):
        """user callback: pure=True -> uninterpreted deterministic function (A4); pure=False -> havoc result.
        post: optional clause over a0, a1, ... and `result` that every returned value is assumed to satisfy
        (e.g. 'the yielded pairs are edges of the ghost relation Edge')"""
        self.funs[name] = dict(args=args, ret=ret, pure=pure, post=post)

    def record(self, name, fields, defaults=None):
        self.records[name] = fields
        self.record_defaults[name] = defaults or {}

    def recfn(self, name, params, ret, on, base, step, group="", base_when=None):
        """recursive spec function over the integer parameter `on`: f = base if <base_when, default on <= 0> else step
        (step may call f at on-1)"""
        self.recfns[name] = dict(params=params, ret=ret, on=on, base=base, step=step, group=group,
                                 base_when=base_when or f"{on} <= 0")

    def lemma(self, name, vars, body, **kw):
        self.lemmas[name] = Lemma(name, vars, body, **kw)

    def find_method(self, cls, meth):
        for s in self.fns.values():
            if s.qualname == f"{cls}.{meth}":
                return s
        return None

    def find_function(self, file, name):
        return self.fns.get(f"{file}::{name}")


REG = Registry()

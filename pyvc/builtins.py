"""Spec vocabulary, builtin contract table (trusted, A8) and calls by contract."""
from __future__ import annotations

import ast

import z3

from .expr import Eval, Unsupported, coerce_num, coerce_to, ufun
from .types import (BOOL, INT, NONE, REAL, TDict, TFun, TList, TMap, TObj, TOpt, TRec, TSet, TTuple, TU, T, V,
                    dict_card, dict_dom, dict_val, fresh, list_arr, list_len, mk_dict, mk_list, mk_set, mk_tuple,
                    opt_is_none, opt_none, opt_some, opt_val, parse_type, set_card, set_mem, sort_of, tuple_get)

STATUS = {"OPTIMAL": 1, "FEASIBLE": 2, "INFEASIBLE": 3, "UNBOUNDED": 4, "MAX_ITER": 5}
USED_BUILTINS: set[str] = set()


def constant(ex, name):
    if name.startswith("Status.") and name[7:] in STATUS:
        return V(INT, z3.IntVal(STATUS[name[7:]]))
    c = getattr(ex.reg, "consts", {}).get(name)
    if c is not None:
        t, val = c
        t = parse_type(t)
        return V(t, z3.RealVal(str(val)) if t == REAL else z3.IntVal(val))
    return module_constant(ex, name)


def module_constant(ex, name):
    """NAME = <numeric / boolean literal expression> at module level, assigned exactly once and never declared `global`:
    the name denotes that value (read from the real module text on every run)"""
    mod = getattr(ex, "mod", None)
    if mod is None:
        return None
    sites = []
    for n in mod.body:
        tgts = n.targets if isinstance(n, ast.Assign) else ([n.target] if isinstance(n, (ast.AnnAssign, ast.AugAssign)) else [])
        for t in tgts:
            if any(isinstance(x, ast.Name) and x.id == name for x in ast.walk(t)):
                sites.append(n)
    if len(sites) != 1 or isinstance(sites[0], ast.AugAssign) or getattr(sites[0], "value", None) is None:
        return None
    if any(isinstance(n, ast.Global) and name in n.names for n in ast.walk(mod)):
        return None
    node = sites[0]
    if isinstance(node, ast.Assign) and not (len(node.targets) == 1 and isinstance(node.targets[0], ast.Name)):
        return None

    def ev(e):
        if isinstance(e, ast.Constant) and isinstance(e.value, (int, float, bool)):
            return e.value
        if isinstance(e, ast.UnaryOp) and isinstance(e.op, (ast.USub, ast.UAdd)):
            v = ev(e.operand)
            return -v if isinstance(e.op, ast.USub) else v
        if isinstance(e, ast.BinOp) and isinstance(e.op, (ast.Add, ast.Sub, ast.Mult, ast.Pow, ast.Div)):
            a, b = ev(e.left), ev(e.right)
            if isinstance(e.op, ast.Pow) and not (isinstance(b, int) and abs(b) <= 64):
                raise ValueError
            return {ast.Add: lambda: a + b, ast.Sub: lambda: a - b, ast.Mult: lambda: a * b, ast.Pow: lambda: a ** b,
                    ast.Div: lambda: a / b}[type(e.op)]()
        raise ValueError

    try:
        val = ev(node.value)
    except (ValueError, ZeroDivisionError, OverflowError):
        return None
    if isinstance(val, bool):
        return V(BOOL, z3.BoolVal(val))
    if isinstance(val, int):
        return V(INT, z3.IntVal(val))
    if val != val or val in (float("inf"), float("-inf")):
        return None
    from fractions import Fraction
    fr = Fraction(repr(val))  # the decimal literal as written (A2: floats are reals), as for literals inside functions
    return V(REAL, z3.RealVal(f"{fr.numerator}/{fr.denominator}"))


def _bound_var(ex, ev, name_node, sort="int"):
    if not isinstance(name_node, ast.Name):
        raise Unsupported("quantifier variable must be a name")
    t = parse_type(sort, ex.generics)
    ex._qn = getattr(ex, "_qn", 0) + 1
    return name_node.id, V(t, z3.Const(f"{name_node.id}!q{ex._qn}", sort_of(t)))


def spec_call(ex, ev: Eval, node: ast.Call, fname: str):
    kw = {k.arg: k.value for k in node.keywords}
    a = node.args
    if fname in ("forall", "exists"):
        names = a[:-1]
        sorts = {}
        if "sorts" in kw:
            sorts = ast.literal_eval(kw["sorts"])
        bvs = []
        bound = dict(ev.bound)
        for nn in names:
            nm, v = _bound_var(ex, ev, nn, sorts.get(nn.id, "int"))
            bound[nm] = v
            bvs.append(v.z)
        sub = Eval(ex, ev.st, True, bound, ev.old, ev.result)
        body = sub.boolean(a[-1])
        pats = []
        if "trig" in kw:
            tn = kw["trig"]
            groups = tn.elts if isinstance(tn, (ast.Tuple, ast.List)) else [tn]
            for g in groups:
                if isinstance(g, (ast.Tuple, ast.List)):
                    try:
                        pats.append(z3.MultiPattern(*[sub.expr(x).z for x in g.elts]))
                    except z3.Z3Exception:
                        pats = []  # a trigger term degenerated (e.g. a literal list): let the solver choose
                        break
                else:
                    pats.append(sub.expr(g).z)
        q = z3.ForAll if fname == "forall" else z3.Exists
        return V(BOOL, q(bvs, body, patterns=pats) if pats else q(bvs, body))
    if fname == "implies":
        ante = ev.boolean(a[0])
        probe = ante
        nr = getattr(ex, "_named_result", None)
        if nr is not None:
            probe = z3.substitute(ante, (nr[0], nr[1]))
        if z3.is_false(z3.simplify(probe)):
            return V(BOOL, z3.BoolVal(True))  # lazily: the consequent may mention names that are unbound here
        return V(BOOL, z3.Implies(ante, ev.boolean(a[1])))
    if fname == "iff":
        return V(BOOL, ev.boolean(a[0]) == ev.boolean(a[1]))
    if fname == "ite":
        c = ev.boolean(a[0])
        x, y = coerce_num(ev.expr(a[1]), ev.expr(a[2]))
        return V(x.t, z3.If(c, x.z, y.z))
    if fname == "old":
        if ev.old is None:
            raise Unsupported("old() outside a post-state")
        sub = Eval(ex, ev.old, True, ev.bound, ev.old, ev.result)
        return sub.expr(a[0])
    if fname == "lam":  # lam(j, expr) -> total map (ghost)
        nm, v = _bound_var(ex, ev, a[0], ast.literal_eval(kw["sort"]) if "sort" in kw else "int")
        bound = dict(ev.bound)
        bound[nm] = v
        body = Eval(ex, ev.st, True, bound, ev.old, ev.result).expr(a[1])
        arr = fresh(TMap(v.t, body.t), "lam")
        ev.st.pc.append(z3.ForAll([v.z], z3.Select(arr.z, v.z) == body.z, patterns=[z3.Select(arr.z, v.z)]))
        return arr
    if fname == "store":
        m = ev.expr(a[0])
        if isinstance(m.t, TMap):
            return V(m.t, z3.Store(m.z, coerce_to(ev.expr(a[1]), m.t.k).z, coerce_to(ev.expr(a[2]), m.t.v).z))
        if isinstance(m.t, TList):
            return mk_list(m.t, list_len(m), z3.Store(list_arr(m), ev.expr(a[1]).z, coerce_to(ev.expr(a[2]), m.t.elem).z))
        raise Unsupported("store on " + str(m.t))
    if fname == "is_set":  # is_set(callback_name): the callable-or-None parameter is not None (same atom the code's `if cb:` reads)
        nm = a[0].id if isinstance(a[0], ast.Name) else None
        v = ev.st.vars.get(nm)
        t = v.t if v is not None else None
        if t is None and nm is not None:
            decl = ex.variant.get(nm, ex.spec.types.get(nm))
            t = ex.ptype(decl) if decl else None
        if not isinstance(t, TFun):
            raise Unsupported("is_set of a non-callback")
        return V(BOOL, z3.Bool(f"truthy!{t.fname}"))
    if fname == "xadd":  # extended-real addition of the code's `+` under `ext_inf`: +inf absorbs
        from .expr import INF
        x, y = coerce_to(ev.expr(a[0]), REAL).z, coerce_to(ev.expr(a[1]), REAL).z
        return V(REAL, z3.If(z3.Or(x == INF, y == INF), INF, x + y))
    if fname == "int_typed":
        # static: the argument is an int (or a list of ints) in THIS type variant of the proof
        v = ev.expr(a[0])
        return V(BOOL, z3.BoolVal(v.t == INT or (isinstance(v.t, TList) and v.t.elem == INT)))
    if fname == "toreal":
        return coerce_to(ev.expr(a[0]), REAL)
    if fname == "is_none":
        v = ev.expr(a[0])
        return V(BOOL, opt_is_none(v) if isinstance(v.t, TOpt) else z3.BoolVal(v.t == NONE))
    if fname == "val":
        return opt_val(ev.expr(a[0]))
    if fname == "card":
        v = ev.expr(a[0])
        return V(INT, dict_card(v) if isinstance(v.t, TDict) else set_card(v))
    if fname == "has":  # has(dict_or_set, key)
        v = ev.expr(a[0])
        return V(BOOL, ex.contains(ev, v, ev.expr(a[1]), node))
    if fname == "get":  # get(dict, key): value stored (unspecified if absent)
        v = ev.expr(a[0])
        return V(v.t.v, z3.Select(dict_val(v), coerce_to(ev.expr(a[1]), v.t.k).z))
    if fname == "defined":  # defined("name"): the local is bound on this path
        return V(BOOL, z3.BoolVal(ast.literal_eval(a[0]) in ev.st.vars))
    if fname == "pow2":
        from .expr import POW2
        return V(INT, POW2(ev.expr(a[0]).z))
    if fname in ("up", "lo"):
        from .expr import LO, UP
        return V(INT, (UP if fname == "up" else LO)(ev.expr(a[0]).z))
    if fname in ex.reg.macros:
        m = ex.reg.macros[fname]
        if len(a) != len(m.params):
            raise Unsupported(f"macro {fname} arity")
        bound = dict(ev.bound)
        st = ev.st
        alias = {}
        for p, an in zip(m.params, a):
            if isinstance(an, ast.Name) and an.id in st.vars and isinstance(st.vars[an.id].t, TObj):
                alias[p] = an.id
            else:
                bound[p] = ev.expr(an)
        sub_st = st
        if alias:
            sub_st = st.copy()
            for p, real in alias.items():
                for k2, v2 in st.vars.items():
                    if k2 == real or k2.startswith(real + "."):
                        sub_st.vars[p + k2[len(real):]] = v2
        sub = Eval(ex, sub_st, True, bound, ev.old, ev.result)
        return V(BOOL, z3.And(*[sub.boolean(ex.parse_clause(c)) for c in m.clauses]))
    if fname in ex.reg.funs and ex.reg.funs[fname]["pure"]:
        fd = ex.reg.funs[fname]
        ft = TFun([ex.ptype(x) for x in fd["args"]], ex.ptype(fd["ret"]), fname, True)
        return apply_callback(ex, ev, ft, node)
    if fname in ex.reg.recfns:
        rf = ex.reg.recfns[fname]
        ats = [parse_type(t, ex.generics) for _, t in rf["params"]]
        rt = parse_type(rf["ret"], ex.generics)
        f = ufun(fname, [sort_of(t) for t in ats], sort_of(rt))
        return V(rt, f(*[coerce_to(ev.expr(x), t).z for x, t in zip(a, ats)]))
    if fname == "arr":  # arr(list) -> the element map of a list value
        v = ev.expr(a[0])
        return V(TMap(INT, v.t.elem), list_arr(v))
    if fname in ex.reg.deffns:
        params, body, group, ret = ex.reg.deffns[fname]
        rt = parse_type(ret)
        f = ufun(fname, [z3.IntSort()] * len(params), sort_of(rt))
        return V(rt, f(*[coerce_to(ev.expr(x), INT).z for x in a]))
    if fname in ex.reg.ghostfns:
        g = ex.reg.ghostfns[fname]
        ats = [parse_type(x, ex.generics) for x in g.args]
        rt = parse_type(g.ret, ex.generics)
        f = ufun(fname, [sort_of(t) for t in ats], sort_of(rt))
        args = [coerce_to(ev.expr(x), t).z for x, t in zip(a, ats)]
        return V(rt, f(*args))
    return None


def do_call(ex, ev: Eval, node: ast.Call) -> V:
    f = node.func
    if isinstance(f, ast.Name):
        fname = f.id
        if ev.spec or fname in ("forall", "exists", "implies"):
            r = spec_call(ex, ev, node, fname)
            if r is not None:
                return r
        # callbacks: pure ones are uninterpreted functions (A4), the others return an arbitrary value
        if fname in ev.st.vars and isinstance(ev.st.vars[fname].t, TFun):
            return apply_callback(ex, ev, ev.st.vars[fname].t, node)
        if fname in ev.st.vars and isinstance(ev.st.vars[fname].t, TObj):
            sp = ex.reg.find_method(ev.st.vars[fname].t.cls, "__call__")
            if sp is not None:
                return call_by_contract(ex, ev, node, sp, recv=f)
        r = builtin_call(ex, ev, node, fname)
        if r is not None:
            USED_BUILTINS.add(fname)
            return r
        sp = ex.function_spec(fname)
        if sp is not None:
            return call_by_contract(ex, ev, node, sp, recv=None)
        recs = getattr(ex.reg, "records", {})
        if fname in recs:
            rt = ex.ret_t if isinstance(ex.ret_t, TRec) and ex.ret_t.rname == fname else ex.ptype(fname)
            return make_record(ex, ev, node, rt)
        if fname in ex.reg.classes:
            raise Unsupported("constructor call must be the right-hand side of a simple assignment")
        r = inline_helper(ex, ev, node, fname)
        if r is not None:
            return r
        raise Unsupported(f"call to {fname} (no contract, not in the builtin table)")
    if isinstance(f, ast.Attribute):
        meth = f.attr
        if isinstance(f.value, ast.Name) and f.value.id == "math" and "math" not in ev.st.vars:
            r = builtin_call(ex, ev, node, meth)
            if r is not None:
                USED_BUILTINS.add(meth)
                return r
        if isinstance(f.value, ast.Name):
            fv = ev.st.vars.get(f"{f.value.id}.{meth}")
            if fv is not None and isinstance(fv.t, TFun):
                return apply_callback(ex, ev, fv.t, node)
        sp = ex.method_spec(f.value, meth, ev.st)
        if sp is not None:
            return call_by_contract(ex, ev, node, sp, recv=f.value)
        r = method_call(ex, ev, node, f.value, meth)
        if r is not None:
            USED_BUILTINS.add("." + meth)
            return r
        raise Unsupported(f"method call {ast.unparse(node)[:60]}")
    fv = ev.expr(f)
    if isinstance(fv.t, TU) and fv.t.uname.startswith("cb_") and fv.t.uname[3:] in ex.reg.funs:
        fd = ex.reg.funs[fv.t.uname[3:]]
        ft = TFun([ex.ptype(x) for x in fd["args"]], ex.ptype(fd["ret"]), fv.t.uname[3:], fd["pure"])
        if ft.pure:
            raise Unsupported("pure callback tokens")
        return apply_callback(ex, ev, ft, node)
    raise Unsupported(f"call {ast.unparse(node)[:60]}")


INLINE_DEPTH = [0]
INLINED: set = set()


def inline_helper(ex, ev, node, fname):
    """A module-level helper WITHOUT a contract whose body is straight-line (docstring, simple assignments,
    `if c: return e` chains, a final return) is executed in place on the argument values: the verified text is the
    helper's real body, nothing is assumed about it.  (Keeps proofs alive across 'extract a small helper' edits.)"""
    fn = None
    for n in (ex.mod.body if ex.mod is not None else []):
        if isinstance(n, ast.FunctionDef) and n.name == fname:
            fn = n
    if fn is None or INLINE_DEPTH[0] >= 3:
        return None
    if any(isinstance(x, (ast.For, ast.While, ast.ListComp, ast.SetComp, ast.DictComp, ast.GeneratorExp, ast.Lambda, ast.Try, ast.With,
                          ast.AugAssign, ast.FunctionDef)) for b_ in fn.body for x in ast.walk(b_)):
        return None  # not straight-line: needs a contract of its own
    A = fn.args
    if A.vararg or A.kwarg:
        return None
    names = [x.arg for x in list(A.posonlyargs) + list(A.args)]
    if len(node.args) > len(names) or any(isinstance(x, ast.Starred) for x in node.args):
        return None
    vals = {}
    for nm, an in zip(names, node.args):
        vals[nm] = ev.expr(an)
    for k in node.keywords:
        if k.arg is None:
            return None
        vals[k.arg] = ev.expr(k.value)
    saved = ev.st.vars
    dflt = dict(zip(names[len(names) - len(A.defaults):], A.defaults))
    dflt.update({x.arg: d for x, d in zip(A.kwonlyargs, A.kw_defaults) if d is not None})
    try:
        ev.st.vars = {}
        for nm in names + [x.arg for x in A.kwonlyargs]:
            if nm not in vals:
                if nm not in dflt:
                    return None
                vals[nm] = Eval(ex, ev.st, ev.spec, {}, None, None, ev.guard).expr(dflt[nm])
        ev.st.vars = dict(vals)
        INLINE_DEPTH[0] += 1
        try:
            r = _inline_block(ex, ev, list(fn.body), [])
        except (KeyError, Unsupported):
            r = None  # something the in-place execution does not model: treated as a call without contract
        finally:
            INLINE_DEPTH[0] -= 1
        if r is not None:
            INLINED.add(fname)
        return r
    finally:
        ev.st.vars = saved


def _inline_block(ex, ev, stmts, guard):
    sub = Eval(ex, ev.st, ev.spec, {}, None, None, list(ev.guard) + guard)
    for i, s in enumerate(stmts):
        if isinstance(s, ast.Expr) and isinstance(s.value, ast.Constant):
            continue
        if isinstance(s, ast.Assign) and len(s.targets) == 1 and isinstance(s.targets[0], ast.Name):
            ev.st.vars[s.targets[0].id] = sub.expr(s.value)
            continue
        if isinstance(s, ast.Return) and s.value is not None:
            return sub.expr(s.value)
        if isinstance(s, ast.If):
            c = sub.truth(sub.expr(s.test))
            keep = dict(ev.st.vars)
            a = _inline_block(ex, ev, list(s.body), guard + [c])
            ev.st.vars = dict(keep)
            b = _inline_block(ex, ev, list(s.orelse) + list(stmts[i + 1:]) if not s.orelse or True else [], guard + [z3.Not(c)])
            ev.st.vars = keep
            if a is None or b is None:
                return None
            if a.t != b.t:
                if {a.t, b.t} == {INT, REAL}:
                    a, b = coerce_to(a, REAL), coerce_to(b, REAL)
                else:
                    return None
            return V(a.t, z3.If(c, a.z, b.z))
        return None
    return None


def apply_callback(ex, ev, ft: TFun, node):
    args = [coerce_to(ev.expr(x), t).z for x, t in zip(node.args, ft.args)]
    if ft.pure:
        uf = ufun(ft.fname, [sort_of(t) for t in ft.args], sort_of(ft.ret))
        return V(ft.ret, uf(*args))
    r = ex.new_sym(ft.ret, f"cb_{ft.fname}", ev.st)
    post = ex.reg.funs.get(ft.fname, {}).get("post")
    if post:
        bound = dict(ev.bound)
        for i, (z, t) in enumerate(zip(args, ft.args)):
            bound[f"a{i}"] = V(t, z)
        ex.name_values(ev.st)
        sub = Eval(ex, ev.st, True, bound, ev.old, r)
        ev.st.pc.append(sub.boolean(ex.parse_clause(post)))
    return r


def construct(ex, ev, node, target_name):
    """`x = Class(args)`: the object's fields appear under x.<field> as established by __init__'s contract"""
    cls = node.func.id
    sp = ex.reg.find_method(cls, "__init__")
    if sp is None:
        raise Unsupported(f"no contract for {cls}.__init__")
    ev.st.vars[target_name] = V(TObj(cls), None)
    recv = ast.Name(id=target_name, ctx=ast.Load())
    ast.copy_location(recv, node)
    call_by_contract(ex, ev, node, sp, recv=recv, is_init=True)


def make_record(ex, ev, node, rt: TRec):
    defaults = getattr(ex.reg, "record_defaults", {}).get(rt.rname, {})
    vals = {}
    ftypes = dict(zip(rt.fields, rt.items))

    def typed(a, ft):
        inner = ft.t if isinstance(ft, TOpt) else ft
        if isinstance(a, (ast.List, ast.Dict)) and not getattr(a, "elts", getattr(a, "keys", [1])):
            return ex.expr_typed(ev, a, inner)
        return ev.expr(a)

    for i, a in enumerate(node.args):
        vals[rt.fields[i]] = typed(a, ftypes[rt.fields[i]])
    for k in node.keywords:
        vals[k.arg] = typed(k.value, ftypes[k.arg])
    items = []
    for fn_, ft in zip(rt.fields, rt.items):
        if fn_ in vals:
            items.append(coerce_to(vals[fn_], ft).z)
        elif fn_ in defaults:
            items.append(coerce_to(ex.spec_value(defaults[fn_], ev.st), ft).z)
        else:
            items.append(fresh(ft, "dflt").z)
    return mk_tuple(rt, items)


def builtin_call(ex, ev: Eval, node, fname):
    a = node.args
    if fname in ("round", "pyround") and len(a) == 1:
        x = coerce_to(ev.expr(a[0]), REAL)
        r = ufun("pyround", [z3.RealSort()], z3.IntSort())(x.z)  # round-half-even: only |x - r| <= 1/2 is used
        ev.st.pc.append(z3.And(2 * (x.z - z3.ToReal(r)) <= 1, 2 * (z3.ToReal(r) - x.z) <= 1))
        return V(INT, r)
    if fname == "inf" and not a:
        from .expr import INF
        return V(REAL, INF)
    if fname == "check_sequence_lengths" and a and not node.keywords and all(isinstance(x, ast.Tuple) and len(x.elts) == 2 for x in a):
        # solvor.utils.validate.check_sequence_lengths((seq, "name"), ...): raises ValueError unless all sequences have the
        # length of the first one, returns that length (12 straight lines; trusted table entry, listed in the evidence)
        lens = []
        for x in a:
            v = ev.expr(x.elts[0])
            if not isinstance(v.t, TList):
                raise Unsupported("check_sequence_lengths over " + str(v.t))
            lens.append(list_len(v))
        for ln in lens[1:]:
            ev.st.pc.append(ln == lens[0])
        return V(INT, lens[0])
    if fname == "sum" and len(a) == 1 and isinstance(a[0], ast.GeneratorExp):
        return do_sumgen(ex, ev, a[0])
    if fname in ("all", "any") and len(a) == 1 and isinstance(a[0], ast.GeneratorExp):
        # all(cond for x in xs) / any(...): a quantifier over the generator's domain (conditions are pure)
        g = a[0]
        if len(g.generators) != 1 or g.generators[0].is_async:
            raise Unsupported("all/any over several generator clauses")
        gen = g.generators[0]
        elem, member, qvars, _ = _gen_domain(ex, ev, gen)
        st2 = ev.st.copy()
        ex.assign(st2, gen.target, elem, Eval(ex, st2))
        st2.pc.append(member)
        sub = Eval(ex, st2, ev.spec, ev.bound, ev.old, ev.result)
        conds = [sub.boolean(c) for c in gen.ifs]
        body = sub.boolean(g.elt)
        r = ex.new_sym(BOOL, fname + "_gen", ev.st)
        dom = z3.And(member, *conds)
        if fname == "all":
            ev.st.pc.append(r.z == z3.ForAll(qvars, z3.Implies(dom, body)))
        else:
            ev.st.pc.append(r.z == z3.Exists(qvars, z3.And(dom, body)))
        return r
    if fname == "sum" and len(a) == 1:
        v = ev.expr(a[0])
        if isinstance(v.t, TList) and v.t.elem in (INT, REAL):
            return V(v.t.elem, ufun("lsum_" + v.t.elem.name, [sort_of(v.t)], sort_of(v.t.elem))(v.z))
        raise Unsupported("sum over " + str(v.t))
    if fname == "len":
        v = ev.expr(a[0])
        if isinstance(v.t, TU) and v.t.uname == "opaque":
            r = ex.new_sym(INT, "opq_len", ev.st)
            ev.st.pc.append(r.z >= 0)
            return r
        if isinstance(v.t, TList):
            return V(INT, list_len(v))
        if isinstance(v.t, TDict):
            return V(INT, dict_card(v))
        if isinstance(v.t, TSet):
            return V(INT, set_card(v))
        if isinstance(v.t, TTuple):
            return V(INT, z3.IntVal(len(v.t.items)))
        raise Unsupported(f"len of {v.t}")
    if fname == "abs":
        v = ev.expr(a[0])
        return V(v.t, z3.If(v.z >= 0, v.z, -v.z))
    if fname == "isclose" and len(a) == 2:
        # math.isclose over the reals: |x - y| <= max(rel_tol * max(|x|, |y|), abs_tol), constant tolerances only
        x, y = coerce_to(ev.expr(a[0]), REAL).z, coerce_to(ev.expr(a[1]), REAL).z
        tol = {"rel_tol": 1e-09, "abs_tol": 0.0}
        for k in node.keywords:
            if k.arg not in tol or not isinstance(k.value, ast.Constant):
                raise Unsupported("isclose with a non-constant tolerance")
            tol[k.arg] = float(k.value.value)
        ab = lambda t: z3.If(t >= 0, t, -t)  # noqa: E731
        mx = lambda p, q: z3.If(p >= q, p, q)  # noqa: E731
        from fractions import Fraction
        rt, at = (z3.RealVal(str(Fraction(tol[k]).limit_denominator(10**18))) for k in ("rel_tol", "abs_tol"))
        return V(BOOL, z3.Or(x == y, ab(x - y) <= mx(rt * mx(ab(x), ab(y)), at)))
    if fname == "range" and len(a) in (1, 2) and not node.keywords:
        # range(...) used as a value (sorted(range(n), ..), list(range(n))): the list lo, lo+1, .., hi-1
        lo = z3.IntVal(0) if len(a) == 1 else coerce_to(ev.expr(a[0]), INT).z
        hi = coerce_to(ev.expr(a[-1]), INT).z
        r = ex.new_sym(TList(INT), "rangev", ev.st)
        j = z3.Int("j!rng")
        ev.st.pc.append(list_len(r) == z3.If(hi > lo, hi - lo, 0))
        ev.st.pc.append(z3.ForAll([j], z3.Implies(z3.And(0 <= j, j < hi - lo), z3.Select(list_arr(r), j) == lo + j),
                                  patterns=[z3.Select(list_arr(r), j)]))
        return r
    if fname == "enumerate" and len(a) == 1:
        xs = ev.expr(a[0])
        if isinstance(xs.t, TList):
            et = TTuple([INT, xs.t.elem])
            r = ex.new_sym(TList(et), "enumerated", ev.st)
            j = z3.Int("j!enum")
            acc = sort_of(et)
            ev.st.pc.append(list_len(r) == list_len(xs))
            ev.st.pc.append(z3.ForAll([j], z3.Implies(z3.And(0 <= j, j < list_len(xs)),
                                                      z3.Select(list_arr(r), j) == acc.constructor(0)(j, z3.Select(list_arr(xs), j))),
                                      patterns=[z3.Select(list_arr(r), j)]))
            return r
        raise Unsupported("enumerate over " + str(xs.t))
    if fname == "tuple" and len(a) == 1:
        v = ev.expr(a[0])
        if isinstance(v.t, TList):
            return v  # immutable copy of a list: same value
        raise Unsupported(f"tuple({v.t})")
    if fname in ("min", "max") and len(a) == 1 and isinstance(a[0], ast.GeneratorExp):
        return genexp_extremum(ex, ev, node, fname)
    if fname in ("min", "max") and len(a) == 1:
        xs = ev.expr(a[0])
        if isinstance(xs.t, TList):
            kw = {k.arg: k.value for k in node.keywords}
            ev.ob("min-nonempty", list_len(xs) > 0, node)
            i = ex.new_sym(INT, "argm", ev.st)
            r = V(xs.t.elem, z3.Select(list_arr(xs), i.z))
            ev.st.pc.append(z3.And(0 <= i.z, i.z < list_len(xs)))

            def keyof(elem, guard=()):
                if "key" not in kw:
                    return elem
                kf = kw["key"]
                if (isinstance(kf, ast.Call) and isinstance(kf.func, ast.Name) and kf.func.id == "attrgetter"
                        and len(kf.args) == 1 and isinstance(kf.args[0], ast.Constant)):
                    return ex.attribute(ev, elem, kf.args[0].value, kf)
                if isinstance(kf, ast.Lambda) and len(kf.args.args) == 1:
                    # the key is evaluated for every element: its side obligations hold under 'the element is in the list'
                    return Eval(ex, ev.st, ev.spec, {**ev.bound, kf.args.args[0].arg: elem}, ev.old, ev.result,
                                list(ev.guard) + list(guard)).expr(kf.body)
                raise Unsupported("min/max key")

            j = z3.Int("j!argm")
            kj = keyof(V(xs.t.elem, z3.Select(list_arr(xs), j)), guard=[z3.And(0 <= j, j < list_len(xs))])
            kr = keyof(r)
            if kj.t not in (INT, REAL):
                raise Unsupported("min/max key type")
            ev.st.pc.append(z3.ForAll([j], z3.Implies(z3.And(0 <= j, j < list_len(xs)), (kr.z <= kj.z) if fname == "min" else (kr.z >= kj.z)),
                                      patterns=[z3.Select(list_arr(xs), j)]))
            return r
    if fname in ("min", "max") and len(a) >= 2 and not node.keywords:
        vs = [ev.expr(x) for x in a]
        r = vs[0]
        for v in vs[1:]:
            r, v = coerce_num(r, v)
            if r.t not in (INT, REAL):
                raise Unsupported("min/max of non-numbers")
            r = V(r.t, z3.If((v.z < r.z) if fname == "min" else (v.z > r.z), v.z, r.z))
        return r
    if fname == "int" and len(a) == 1:
        v = ev.expr(a[0])
        if v.t == INT:
            return v
        if v.t == BOOL:
            return coerce_to(v, INT)
        if v.t == REAL:  # truncation toward zero
            fl = z3.ToInt(v.z)
            return V(INT, z3.If(v.z >= 0, fl, z3.If(z3.ToReal(fl) == v.z, fl, fl + 1)))
    if fname == "float" and len(a) == 1:
        if isinstance(a[0], ast.Constant) and isinstance(a[0].value, str):
            from .expr import INF
            if a[0].value in ("inf", "+inf"):
                return V(REAL, INF)
            if a[0].value == "-inf":
                return V(REAL, -INF)
            raise Unsupported("float(str)")
        return coerce_to(ev.expr(a[0]), REAL)
    if fname == "bool" and len(a) == 1:
        return V(BOOL, ev.boolean(a[0]))
    if fname == "isinstance" and len(a) == 2:
        v = ev.expr(a[0])
        tn = ast.unparse(a[1])
        table = {"int": v.t == INT or v.t == BOOL, "float": v.t == REAL, "list": isinstance(v.t, TList),
                 "bool": v.t == BOOL, "dict": isinstance(v.t, TDict), "set": isinstance(v.t, TSet),
                 "tuple": isinstance(v.t, TTuple)}
        if tn in table:
            return V(BOOL, z3.BoolVal(bool(table[tn])))
        raise Unsupported(f"isinstance(_, {tn})")
    if (fname == "next" and len(a) == 1 and isinstance(a[0], ast.Call) and isinstance(a[0].func, ast.Name)
            and a[0].func.id == "iter" and len(a[0].args) == 1):
        c = ev.expr(a[0].args[0])  # next(iter(X)): some member of a non-empty set / dict (order arbitrary, A6)
        if isinstance(c.t, (TSet, TDict)):
            kt = c.t.k
            mem = set_mem(c) if isinstance(c.t, TSet) else dict_dom(c)
            ev.ob("next-nonempty", (set_card(c) if isinstance(c.t, TSet) else dict_card(c)) > 0, node)
            x = ex.new_sym(kt, "member", ev.st)
            ev.st.pc.append(z3.Select(mem, x.z))
            return x
        raise Unsupported("next(iter(...)) over " + str(c.t))
    if fname in ("deque", "list") and len(a) == 1 and isinstance(a[0], ast.GeneratorExp) and not node.keywords:
        g = a[0]
        lc = ast.ListComp(elt=g.elt, generators=g.generators)
        ast.copy_location(lc, g)
        ex.loop_ord[id(lc)] = ex.loop_ord[id(g)]
        return do_listcomp(ex, ev, lc)
    if fname == "deque" and len(a) <= 1 and not node.keywords:
        if not a:
            raise Unsupported("deque() without a declared element type")
        v = ev.expr(a[0])
        if isinstance(v.t, TList):
            return v  # a deque is modelled as a list (append at the right, popleft at the left)
        raise Unsupported(f"deque({v.t})")
    if fname == "set" and len(a) == 1:
        v = ev.expr(a[0])
        if isinstance(v.t, TSet):
            return v
        if isinstance(v.t, TDict):
            return mk_set(TSet(v.t.k), dict_dom(v), dict_card(v))
        if isinstance(v.t, TList) and not isinstance(v.t.elem, (TList, TDict, TSet)):
            # set(xs): membership is 'occurs in xs'; the cardinality is only bounded (duplicates collapse)
            r = ex.new_sym(TSet(v.t.elem), "setof", ev.st)
            kq = fresh(v.t.elem, "skey")
            j = z3.Int("j!skey")
            ev.st.pc.append(z3.ForAll([kq.z], z3.Select(set_mem(r), kq.z) ==
                                      z3.Exists([j], z3.And(0 <= j, j < list_len(v), z3.Select(list_arr(v), j) == kq.z)),
                                      patterns=[z3.Select(set_mem(r), kq.z)]))
            ev.st.pc.append(z3.ForAll([j], z3.Implies(z3.And(0 <= j, j < list_len(v)), z3.Select(set_mem(r), z3.Select(list_arr(v), j))),
                                      patterns=[z3.Select(list_arr(v), j)]))
            ev.st.pc.append(z3.And(set_card(r) >= 0, set_card(r) <= list_len(v)))
            return r
        raise Unsupported(f"set({v.t})")
    if fname == "list" and len(a) == 1:
        x = a[0]
        if isinstance(x, ast.Call) and isinstance(x.func, ast.Name) and x.func.id == "range" and len(x.args) == 1:
            n = ev.expr(x.args[0])
            arr = fresh(TMap(INT, INT), "rng")
            j = z3.Int("j!rng")
            ev.st.pc.append(z3.ForAll([j], z3.Select(arr.z, j) == j, patterns=[z3.Select(arr.z, j)]))
            return mk_list(TList(INT), z3.If(n.z >= 0, n.z, 0), arr.z)
        v = ev.expr(x)
        if isinstance(v.t, TOpt) and isinstance(v.t.t, TList):
            ev.ob("none-deref", z3.Not(opt_is_none(v)), node)
            v = opt_val(v)
        if isinstance(v.t, TList):
            return v  # copy: same value
        raise Unsupported(f"list({v.t})")
    if fname in ("debug", "print"):
        return V(NONE, z3.BoolVal(True))
    if fname == "sorted" and len(a) == 1:
        return do_sorted(ex, ev, node)
    if fname in ("heappush", "heappop", "heapify") and a:
        h = ev.expr(a[0])
        if isinstance(h.t, TU) and h.t.uname == "opaque":  # heap contents are not interpreted
            for x in a[1:]:
                ev.expr(x)
            return ex.new_sym(h.t, "heap", ev.st)
        if isinstance(h.t, TList) and fname == "heappush" and len(a) == 2 and isinstance(a[0], (ast.Name, ast.Attribute)):
            x = fit(ex, ev, ev.expr(a[1]), h.t.elem, node)
            ex.assign(ev.st, a[0], mk_list(h.t, list_len(h) + 1, z3.Store(list_arr(h), list_len(h), x.z)), ev)
            return V(NONE, z3.BoolVal(True))
        if isinstance(h.t, TList) and fname == "heappop" and len(a) == 1 and isinstance(a[0], (ast.Name, ast.Attribute)):
            # over-approximation: SOME element is removed (minimality is not used), the rest are old elements
            ev.ob("heap-nonempty", list_len(h) > 0, node)
            i = ex.new_sym(INT, "popidx", ev.st)
            ev.st.pc.append(z3.And(0 <= i.z, i.z < list_len(h)))
            new = ex.new_sym(h.t, "heap_rest", ev.st)
            src = fresh(TMap(INT, INT), "heap_src")
            j = z3.Int("j!heap")
            ev.st.pc.append(list_len(new) == list_len(h) - 1)
            # the popped element has a minimal first component (ties are broken by later components, which callers
            # make unique), and every other element is still in the heap
            e0 = z3.Select(list_arr(h), i.z)
            k_ = z3.Int("k!heap")
            if isinstance(h.t.elem, TTuple) and h.t.elem.items[0] in (INT, REAL):
                acc0 = sort_of(h.t.elem).accessor(0, 0)
                ev.st.pc.append(z3.ForAll([k_], z3.Implies(z3.And(0 <= k_, k_ < list_len(h)), acc0(e0) <= acc0(z3.Select(list_arr(h), k_))),
                                          patterns=[z3.Select(list_arr(h), k_)]))
            inv_ = fresh(TMap(INT, INT), "heap_inv")
            ev.st.pc.append(z3.ForAll([k_], z3.Implies(z3.And(0 <= k_, k_ < list_len(h), k_ != i.z),
                                                       z3.And(0 <= z3.Select(inv_.z, k_), z3.Select(inv_.z, k_) < list_len(new),
                                                              z3.Select(list_arr(new), z3.Select(inv_.z, k_)) == z3.Select(list_arr(h), k_))),
                                      patterns=[z3.Select(inv_.z, k_)]))
            ev.st.pc.append(z3.ForAll([j], z3.Implies(z3.And(0 <= j, j < list_len(new)),
                                                      z3.And(0 <= z3.Select(src.z, j), z3.Select(src.z, j) < list_len(h),
                                                             z3.Select(list_arr(new), j) == z3.Select(list_arr(h), z3.Select(src.z, j)))),
                                      patterns=[z3.Select(list_arr(new), j)]))
            ex.assign(ev.st, a[0], new, ev)
            ev.st.vars["_heap_inv"] = inv_  # ghost handles: new position of each surviving entry, position that was popped
            ev.st.vars["_heap_idx"] = i
            return V(h.t.elem, z3.Select(list_arr(h), i.z))
        raise Unsupported("heap operation on a modelled list")
    if fname == "callable" and len(a) == 1:
        return ex.new_sym(BOOL, "callable", ev.st)
    if fname in ("exp", "log", "sqrt") and len(a) == 1:
        x = coerce_to(ev.expr(a[0]), REAL)
        f = ufun("math_" + fname, [z3.RealSort()], z3.RealSort())
        r = V(REAL, f(x.z))
        if fname == "exp":
            ev.st.pc.append(r.z > 0)
        if fname == "sqrt":
            ev.ob("sqrt-domain", x.z >= 0, node)
            ev.st.pc.append(z3.And(r.z >= 0, r.z * r.z == x.z))
        if fname == "log":
            ev.ob("log-domain", x.z > 0, node)
        return r
    return None


def fit(ex, ev, v, t, node):
    """coerce v to type t, unwrapping Optional components where t wants a value (with a not-None obligation)"""
    if isinstance(v.t, TOpt) and not isinstance(t, TOpt) and not (isinstance(t, TU) and t.uname == "opaque"):
        ev.ob("none-deref", z3.Not(opt_is_none(v)), node)
        v = opt_val(v)
    if isinstance(v.t, TTuple) and isinstance(t, TTuple) and len(v.t.items) == len(t.items) and v.t != t:
        return mk_tuple(t, [fit(ex, ev, tuple_get(v, i), it, node).z for i, it in enumerate(t.items)])
    return coerce_to(v, t)


def _store_back(ex, ev, recv_node, newv):
    ex.note_mutation(recv_node, extra_depth=1)  # in-place mutation of the receiver
    ex._in_store_back = True
    try:
        ex.assign(ev.st, recv_node, newv, ev)
    finally:
        ex._in_store_back = False


def method_call(ex, ev: Eval, node, recv_node, meth):
    try:
        recv = ev.expr(recv_node)
    except Unsupported:
        return None
    a = node.args
    if isinstance(recv.t, TU) and recv.t.uname == "opaque" and meth in ("lower", "upper", "strip", "replace", "casefold", "lstrip", "rstrip"):
        for x in a:
            ev.expr(x)
        return ex.new_sym(TU("opaque"), "strm", ev.st)  # strings are not interpreted: the result is some string
    if isinstance(recv.t, TU) and recv.t.uname == "opaque" and meth in ("endswith", "startswith", "isdigit", "isalpha"):
        for x in a:
            ev.expr(x)
        return ex.new_sym(BOOL, "strp", ev.st)  # ... and a predicate on it is arbitrary (every branch is explored)
    if isinstance(recv.t, TU) and recv.t.uname == "rng":
        # seeded Random instance: results are arbitrary values of the documented range (all seeds at once)
        if meth == "random" and not a:
            r = ex.new_sym(REAL, "rnd", ev.st)
            ev.st.pc.append(z3.And(r.z >= 0, r.z < 1))
            return r
        if meth == "randint" and len(a) == 2:
            lo, hi = ev.expr(a[0]), ev.expr(a[1])
            r = ex.new_sym(INT, "rndi", ev.st)
            ev.st.pc.append(z3.And(r.z >= lo.z, r.z <= hi.z))
            return r
        if meth == "randrange" and len(a) == 1:
            hi = ev.expr(a[0])
            r = ex.new_sym(INT, "rndi", ev.st)
            ev.st.pc.append(z3.And(r.z >= 0, r.z < hi.z))
            return r
        if meth == "uniform" and len(a) == 2:
            lo, hi = coerce_to(ev.expr(a[0]), REAL), coerce_to(ev.expr(a[1]), REAL)
            r = ex.new_sym(REAL, "rndu", ev.st)
            ev.st.pc.append(z3.Or(z3.And(r.z >= lo.z, r.z <= hi.z), z3.And(r.z >= hi.z, r.z <= lo.z)))
            return r
        if meth == "choice" and len(a) == 1:
            lst = ev.expr(a[0])
            if isinstance(lst.t, TList):
                ev.ob("choice-nonempty", list_len(lst) > 0, node)
                i = ex.new_sym(INT, "rndc", ev.st)
                ev.st.pc.append(z3.And(i.z >= 0, i.z < list_len(lst)))
                return V(lst.t.elem, z3.Select(list_arr(lst), i.z))
        if meth == "sample" and len(a) == 2:
            lst, kk = ev.expr(a[0]), ev.expr(a[1])
            if isinstance(lst.t, TList) and kk.t == INT:
                ev.ob("sample-size", z3.And(kk.z >= 0, kk.z <= list_len(lst)), node)
                r = ex.new_sym(lst.t, "sample", ev.st)
                pos = fresh(TMap(INT, INT), "sample_pos")
                j = z3.Int("j!sample")
                ev.st.pc.append(list_len(r) == kk.z)
                ev.st.pc.append(z3.ForAll([j], z3.Implies(z3.And(0 <= j, j < kk.z),
                                                          z3.And(0 <= z3.Select(pos.z, j), z3.Select(pos.z, j) < list_len(lst),
                                                                 z3.Select(list_arr(r), j) == z3.Select(list_arr(lst), z3.Select(pos.z, j)))),
                                          patterns=[z3.Select(list_arr(r), j)]))
                return r
        if meth == "shuffle" and len(a) == 1 and isinstance(a[0], (ast.Name, ast.Attribute)):
            lst = ev.expr(a[0])
            if isinstance(lst.t, TList):
                # over-approximation: same length, arbitrary contents (a permutation is one such list)
                new = ex.new_sym(lst.t, "shuffled", ev.st)
                ev.st.pc.append(list_len(new) == list_len(lst))
                ex.assign(ev.st, a[0], new, ev)
                return V(NONE, z3.BoolVal(True))
        raise Unsupported(f"Random.{meth}")
    if isinstance(recv.t, TU) and recv.t.uname == "opaque":
        for x in a:
            ev.expr(x)
        return ex.new_sym(recv.t, "opq_m", ev.st)
    if isinstance(recv.t, TList):
        ln, arr = list_len(recv), list_arr(recv)
        if meth == "append" and len(a) == 1:
            if ev.guard:
                raise Unsupported("effect under short-circuit")
            v = fit(ex, ev, ex.expr_typed(ev, a[0], recv.t.elem), recv.t.elem, node)
            ch = ex._chain(recv_node)
            if ch is not None and ex._chain(a[0]) is not None and isinstance(v.t, (TList, TDict, TSet)):
                # the container now holds the very object the argument names
                ex.__dict__.setdefault("_views", []).append((ex._chain(a[0])[0], ch[0], ch[1] + 1, ex._event()))
            _store_back(ex, ev, recv_node, mk_list(recv.t, ln + 1, z3.Store(arr, ln, v.z)))
            return V(NONE, z3.BoolVal(True))
        if meth == "pop" and len(a) == 0:
            if ev.guard:
                raise Unsupported("effect under short-circuit")
            ev.ob("bounds", ln > 0, node)
            _store_back(ex, ev, recv_node, mk_list(recv.t, ln - 1, arr))
            return V(recv.t.elem, z3.Select(arr, ln - 1))
        if meth == "sort":
            if ev.guard:
                raise Unsupported("effect under short-circuit")
            r = do_sorted(ex, ev, node, xs_value=recv)
            _store_back(ex, ev, recv_node, r)
            return V(NONE, z3.BoolVal(True))
        if meth == "popleft" and not a:
            if ev.guard:
                raise Unsupported("effect under short-circuit")
            ev.ob("bounds", ln > 0, node)
            new = fresh(TMap(INT, recv.t.elem), "shifted")
            j = z3.Int("j!popleft")
            ev.st.pc.append(z3.ForAll([j], z3.Implies(z3.And(0 <= j, j < ln - 1), z3.Select(new.z, j) == z3.Select(arr, j + 1)),
                                      patterns=[z3.Select(new.z, j)]))
            _store_back(ex, ev, recv_node, mk_list(recv.t, ln - 1, new.z))
            return V(recv.t.elem, z3.Select(arr, 0))
        if meth == "copy" and not a:
            return recv
        if meth == "reverse" and not a:
            if ev.guard:
                raise Unsupported("effect under short-circuit")
            na = fresh(TMap(INT, recv.t.elem), "rev")
            j = z3.Int("j!rev")
            ev.st.pc.append(z3.ForAll([j], z3.Implies(z3.And(0 <= j, j < ln), z3.Select(na.z, j) == z3.Select(arr, ln - 1 - j)),
                                      patterns=[z3.Select(na.z, j)]))
            _store_back(ex, ev, recv_node, mk_list(recv.t, ln, na.z))
            return V(NONE, z3.BoolVal(True))
    if isinstance(recv.t, TDict):
        if meth == "get" and len(a) in (1, 2):
            kv = ev.expr(a[0])
            if isinstance(kv.t, TOpt) and not isinstance(recv.t.k, TOpt):
                ev.ob("none-deref", z3.Not(opt_is_none(kv)), node)
                kv = opt_val(kv)
            k = coerce_to(kv, recv.t.k)
            has = z3.Select(dict_dom(recv), k.z)
            val = z3.Select(dict_val(recv), k.z)
            if len(a) == 2:
                d = coerce_to(ex.expr_typed(ev, a[1], recv.t.v), recv.t.v)
                return V(recv.t.v, z3.If(has, val, d.z))
            return V(TOpt(recv.t.v), z3.If(has, opt_some(TOpt(recv.t.v), val).z, opt_none(TOpt(recv.t.v)).z))
        if meth == "keys" and not a:
            return mk_set(TSet(recv.t.k), dict_dom(recv), dict_card(recv))
        if meth == "values" and not a:
            # list(d.values()): a list whose elements are exactly the stored values (order arbitrary, A6)
            return dict_values_list(ex, ev, recv)
    if isinstance(recv.t, TSet):
        if meth == "add" and len(a) == 1:
            if ev.guard:
                raise Unsupported("effect under short-circuit")
            k = coerce_to(ev.expr(a[0]), recv.t.k)
            had = z3.Select(set_mem(recv), k.z)
            _store_back(ex, ev, recv_node, mk_set(recv.t, z3.Store(set_mem(recv), k.z, z3.BoolVal(True)),
                                                  z3.If(had, set_card(recv), set_card(recv) + 1)))
            return V(NONE, z3.BoolVal(True))
    return None


def dict_values_list(ex, ev, d: V):
    t = TList(d.t.v)
    out = fresh(t, "vals")
    ev.st.pc.append(list_len(out) == dict_card(d))
    # bijection between positions and keys (ghost maps key_at / pos_of)
    key_at = fresh(TMap(INT, d.t.k), "key_at")
    pos_of = fresh(TMap(d.t.k, INT), "pos_of")
    j = z3.Int("j!vals")
    q = z3.Const("q!vals", sort_of(d.t.k))
    n = list_len(out)
    ev.st.pc.append(z3.ForAll([j], z3.Implies(z3.And(0 <= j, j < n),
                                               z3.And(z3.Select(dict_dom(d), z3.Select(key_at.z, j)),
                                                      z3.Select(pos_of.z, z3.Select(key_at.z, j)) == j,
                                                      z3.Select(list_arr(out), j) == z3.Select(dict_val(d), z3.Select(key_at.z, j)))),
                              patterns=[z3.Select(key_at.z, j)]))
    ev.st.pc.append(z3.ForAll([q], z3.Implies(z3.Select(dict_dom(d), q),
                                               z3.And(0 <= z3.Select(pos_of.z, q), z3.Select(pos_of.z, q) < n,
                                                      z3.Select(key_at.z, z3.Select(pos_of.z, q)) == q)),
                              patterns=[z3.Select(pos_of.z, q)]))
    ev.st.vars["_key_at"] = key_at
    ev.st.vars["_pos_of"] = pos_of
    return out


def _gen_domain(ex, ev, gen):
    """symbolic element of a comprehension / generator domain: returns (bound value for the target, membership
    condition of the fresh witness, quantifier maker)"""
    it = gen.iter
    if isinstance(it, ast.Call) and isinstance(it.func, ast.Attribute) and it.func.attr in ("values", "items", "keys"):
        d = ev.expr(it.func.value)
        if not isinstance(d.t, TDict):
            raise Unsupported("generator over " + str(d.t))
        key = fresh(d.t.k, "gk")
        val = V(d.t.v, z3.Select(dict_val(d), key.z))
        elem = {"values": val, "keys": key,
                "items": mk_tuple(TTuple([d.t.k, d.t.v]), [key.z, val.z])}[it.func.attr]
        return elem, z3.Select(dict_dom(d), key.z), [key.z], dict_card(d) > 0
    if (isinstance(it, ast.Call) and isinstance(it.func, ast.Name) and it.func.id == "range" and "range" not in ev.st.vars
            and len(it.args) in (1, 2) and not it.keywords):
        lo = z3.IntVal(0) if len(it.args) == 1 else coerce_to(ev.expr(it.args[0]), INT).z
        hi = coerce_to(ev.expr(it.args[-1]), INT).z
        i = fresh(INT, "gi")
        return i, z3.And(lo <= i.z, i.z < hi), [i.z], lo < hi
    v = ev.expr(it)
    if isinstance(v.t, TList):
        i = fresh(INT, "gi")
        return V(v.t.elem, z3.Select(list_arr(v), i.z)), z3.And(0 <= i.z, i.z < list_len(v)), [i.z], list_len(v) > 0
    if isinstance(v.t, TDict):
        key = fresh(v.t.k, "gk")
        return key, z3.Select(dict_dom(v), key.z), [key.z], dict_card(v) > 0
    raise Unsupported("generator over " + str(v.t))


def genexp_extremum(ex, ev, node, fname):
    """min/max over a generator with one or more `for` clauses (no filters): the result bounds every element and is
    attained; later clauses may depend on earlier targets; the domain must be non-empty (obligation)"""
    g = node.args[0]
    if any(gen.ifs or gen.is_async for gen in g.generators):
        raise Unsupported("generator shape in min/max")
    st2 = ev.st.copy()
    members, qvars, nonempties = [], [], []
    for gen in g.generators:
        sub = Eval(ex, st2, ev.spec, ev.bound, ev.old, ev.result)
        elem, member, qv, nonempty = _gen_domain(ex, sub, gen)
        # non-emptiness of an inner domain is needed for every outer element: ask for it under the outer membership
        nonempties.append(z3.Implies(z3.And(*members), nonempty) if members else nonempty)
        ex.assign(st2, gen.target, elem, Eval(ex, st2))
        st2.pc.append(member)
        members.append(member)
        qvars += qv
    # (a dependent inner domain that is empty for some outer element only removes elements; what must be non-empty is the whole)
    if len(g.generators) == 1:
        ev.ob("min-nonempty", nonempties[0], node)
    else:
        # sufficient condition checked: every clause's domain is non-empty and later domains do not depend on earlier targets
        for gen, ne in zip(g.generators, nonempties):
            ev.ob("min-nonempty", ne.arg(1) if z3.is_implies(ne) else ne, node)
        for idx, gen in enumerate(g.generators[1:], 1):
            used = {n_.id for n_ in ast.walk(gen.iter) if isinstance(n_, ast.Name)}
            earlier = {n_.id for g0 in g.generators[:idx] for n_ in ast.walk(g0.target) if isinstance(n_, ast.Name)}
            if used & earlier:
                raise Unsupported("min/max over dependent generator clauses")
    member = z3.And(*members)
    val = Eval(ex, st2, ev.spec, ev.bound, ev.old, ev.result).expr(g.elt)
    if val.t not in (INT, REAL):
        raise Unsupported("min/max of " + str(val.t))
    r = ex.new_sym(val.t, "extremum", ev.st)
    # r bounds every element and is attained by one of them (witness: fresh constants)
    ev.st.pc.append(z3.ForAll(qvars, z3.Implies(member, (val.z <= r.z) if fname == "max" else (val.z >= r.z))))
    wit = [z3.FreshConst(q.sort(), "wit") for q in qvars]
    ev.st.pc.append(z3.substitute(z3.And(member, val.z == r.z), *zip(qvars, wit)))
    return r


def do_setcomp(ex, ev, node):
    """{k for k, v in d.items() if cond}  /  {x for x in xs_set_or_dict if cond}: membership is pointwise"""
    if len(node.generators) != 1:
        raise Unsupported("set comprehension with several generators")
    gen = node.generators[0]
    elem, member, qvars, _ = _gen_domain(ex, ev, gen)
    st2 = ev.st.copy()
    ex.assign(st2, gen.target, elem, Eval(ex, st2))
    sub = Eval(ex, st2, ev.spec, ev.bound, ev.old, ev.result)
    out = sub.expr(node.elt)
    if len(qvars) != 1 or not z3.simplify(out.z).eq(qvars[0]):
        raise Unsupported("set comprehension whose element is not the iteration key")
    cond = z3.And(*[sub.boolean(c) for c in gen.ifs]) if gen.ifs else z3.BoolVal(True)
    r = ex.new_sym(TSet(out.t), "setcomp", ev.st)
    ev.st.pc.append(z3.ForAll(qvars, z3.Select(set_mem(r), qvars[0]) == z3.And(member, cond),
                              patterns=[z3.Select(set_mem(r), qvars[0])]))
    return r


def do_dictcomp(ex, ev, node, hint=None):
    """{i: value(i) for i in range(n) if cond(i)}: domain and values pointwise;
    {v: value for v in xs} over a list xs (no filter): the keys are the elements of xs, every key maps to value (typed by the hint)"""
    if len(node.generators) != 1:
        raise Unsupported("dict comprehension with several generators")
    gen = node.generators[0]
    it = gen.iter
    if (hint is not None and isinstance(gen.target, ast.Name) and isinstance(node.key, ast.Name) and node.key.id == gen.target.id
            and not gen.ifs and not (isinstance(it, ast.Call) and isinstance(it.func, ast.Name) and it.func.id == "range")):
        xs = ev.expr(it)
        if isinstance(xs.t, TList) and xs.t.elem == hint.k:
            kq = fresh(hint.k, "dkey")
            st2 = ev.st.copy()
            st2.vars[gen.target.id] = kq
            val = ex.expr_typed(Eval(ex, st2, ev.spec, ev.bound, ev.old, ev.result), node.value, hint.v)
            r = ex.new_sym(hint, "dictcomp", ev.st)
            j = z3.Int("j!dkey")
            member = z3.Exists([j], z3.And(0 <= j, j < list_len(xs), z3.Select(list_arr(xs), j) == kq.z))
            ev.st.pc.append(z3.ForAll([kq.z], z3.And(z3.Select(dict_dom(r), kq.z) == member,
                                                     z3.Implies(z3.Select(dict_dom(r), kq.z), z3.Select(dict_val(r), kq.z) == coerce_to(val, hint.v).z)),
                                      patterns=[z3.Select(dict_dom(r), kq.z)]))
            # elements of the list are keys (the direction the existential above hides from the matcher)
            ev.st.pc.append(z3.ForAll([j], z3.Implies(z3.And(0 <= j, j < list_len(xs)), z3.Select(dict_dom(r), z3.Select(list_arr(xs), j))),
                                      patterns=[z3.Select(list_arr(xs), j)]))
            return r
    if not (isinstance(it, ast.Call) and isinstance(it.func, ast.Name) and it.func.id == "range" and len(it.args) == 1
            and isinstance(gen.target, ast.Name) and isinstance(node.key, ast.Name) and node.key.id == gen.target.id):
        raise Unsupported("dict comprehension shape")
    n = ev.expr(it.args[0])
    i = fresh(INT, "dk")
    sub = Eval(ex, ev.st, ev.spec, {**ev.bound, gen.target.id: i}, ev.old, ev.result)
    sub.guard = list(ev.guard) + [z3.And(0 <= i.z, i.z < n.z)]
    cond = z3.And(*[sub.boolean(c) for c in gen.ifs]) if gen.ifs else z3.BoolVal(True)
    val = sub.expr(node.value)
    t = TDict(INT, val.t)
    r = ex.new_sym(t, "dictcomp", ev.st)
    ev.st.pc.append(z3.ForAll([i.z], z3.And(z3.Select(dict_dom(r), i.z) == z3.And(0 <= i.z, i.z < n.z, cond),
                                            z3.Implies(z3.Select(dict_dom(r), i.z), z3.Select(dict_val(r), i.z) == val.z)),
                              patterns=[z3.Select(dict_dom(r), i.z)]))
    return r


def do_sorted(ex, ev, node, xs_value=None):
    """sorted(xs[, key=lambda e: e[c]][, reverse=True]): a list of the same length whose k-th element is
    xs[perm[k]] (ghost index map `_perm`), ordered by the key.  (Injectivity of perm is not stated.)"""
    xs = xs_value if xs_value is not None else ev.expr(node.args[0])
    if not isinstance(xs.t, TList):
        raise Unsupported("sorted over " + str(xs.t))
    kw = {k.arg: k.value for k in node.keywords}
    r = ex.new_sym(xs.t, "sorted", ev.st)
    perm = fresh(TMap(INT, INT), "perm")
    n = list_len(xs)
    k = z3.Int("k!sorted")
    a, b = z3.Int("a!sorted"), z3.Int("b!sorted")
    ra = list_arr(r)
    ev.st.pc.append(list_len(r) == n)
    ev.st.pc.append(z3.ForAll([k], z3.Implies(z3.And(0 <= k, k < n),
                                              z3.And(0 <= z3.Select(perm.z, k), z3.Select(perm.z, k) < n,
                                                     z3.Select(ra, k) == z3.Select(list_arr(xs), z3.Select(perm.z, k)))),
                              patterns=[z3.Select(ra, k)]))

    inv = fresh(TMap(INT, INT), "perm_inv")
    j_ = z3.Int("j!sorted")
    # every input element appears in the output (sorted returns a permutation)
    ev.st.pc.append(z3.ForAll([j_], z3.Implies(z3.And(0 <= j_, j_ < n),
                                               z3.And(0 <= z3.Select(inv.z, j_), z3.Select(inv.z, j_) < n,
                                                      z3.Select(ra, z3.Select(inv.z, j_)) == z3.Select(list_arr(xs), j_))),
                              patterns=[z3.Select(list_arr(xs), j_), z3.Select(inv.z, j_)]))

    # perm and inv are mutually inverse bijections of 0..n-1 (sorted returns a permutation of its input)
    ev.st.pc.append(z3.ForAll([k], z3.Implies(z3.And(0 <= k, k < n), z3.Select(inv.z, z3.Select(perm.z, k)) == k),
                              patterns=[z3.Select(perm.z, k)]))
    ev.st.pc.append(z3.ForAll([j_], z3.Implies(z3.And(0 <= j_, j_ < n), z3.Select(perm.z, z3.Select(inv.z, j_)) == j_),
                              patterns=[z3.Select(inv.z, j_)]))

    def keyof(elem: V):
        if "key" not in kw:
            return elem
        lam = kw["key"]
        if (isinstance(lam, ast.Call) and isinstance(lam.func, ast.Name) and lam.func.id == "attrgetter"
                and len(lam.args) == 1 and isinstance(lam.args[0], ast.Constant)):
            return ex.attribute(ev, elem, lam.args[0].value, lam)
        if not (isinstance(lam, ast.Lambda) and len(lam.args.args) == 1):
            raise Unsupported("sorted key")
        sub = Eval(ex, ev.st, ev.spec, {**ev.bound, lam.args.args[0].arg: elem}, ev.old, ev.result)
        # the key is only ever applied to elements of the list: side obligations are guarded by that
        sub.guard = list(ev.guard) + [z3.And(0 <= a, a < n, 0 <= b, b < n),
                                      z3.And(0 <= z3.Select(perm.z, a), z3.Select(perm.z, a) < n, 0 <= z3.Select(perm.z, b), z3.Select(perm.z, b) < n),
                                      z3.Select(ra, a) == z3.Select(list_arr(xs), z3.Select(perm.z, a)),
                                      z3.Select(ra, b) == z3.Select(list_arr(xs), z3.Select(perm.z, b))]
        return sub.expr(lam.body)

    ka, kb = keyof(V(xs.t.elem, z3.Select(ra, a))), keyof(V(xs.t.elem, z3.Select(ra, b)))
    if ka.t not in (INT, REAL):
        ev.st.vars["_perm"] = perm  # composite keys: only 'the result is a permutation' is modelled
        ev.st.vars["_perm_inv"] = inv
        return r
    rev = "reverse" in kw and isinstance(kw["reverse"], ast.Constant) and kw["reverse"].value is True
    order = (ka.z >= kb.z) if rev else (ka.z <= kb.z)
    ev.st.pc.append(z3.ForAll([a, b], z3.Implies(z3.And(0 <= a, a < b, b < n), order),
                              patterns=[z3.MultiPattern(z3.Select(ra, a), z3.Select(ra, b))]))
    ev.st.vars["_perm"] = perm
    ev.st.vars["_perm_inv"] = inv
    return r


def do_slice(ex, ev, base, sl, node):
    if isinstance(base.t, TList) and sl.lower is None and sl.step is None and sl.upper is not None:
        # xs[:k] with k >= 0: the first min(k, len) elements
        k = ev.expr(sl.upper)
        if k.t != INT:
            raise Unsupported("slice bound")
        ev.ob("slice-nonneg", k.z >= 0, node)
        ln = list_len(base)
        return mk_list(base.t, z3.If(k.z < ln, k.z, ln), list_arr(base))
    raise Unsupported("slice " + ast.unparse(node)[:40])


def do_listcomp(ex, ev, node):
    """[elt for x in seq (if c)]  ==  tmp = []; for x in seq: (if c:) tmp.append(elt)   executed as a loop cut at the
    invariant the sidecar gives for this comprehension's loop ordinal (the list under construction is `_comp<k>`)"""
    if len(node.generators) != 1 or node.generators[0].is_async:
        raise Unsupported("comprehension with several generators")
    gen = node.generators[0]
    k = ex.loop_ord[id(node)]
    name = f"_comp{k}"
    hint = ex.variant.get(name, ex.spec.types.get(name))
    if hint is None:
        raise Unsupported(f"declare the element type of the comprehension as types['{name}']")
    t = ex.ptype(hint)
    st = ev.st
    st.vars[name] = mk_list(t, z3.IntVal(0), fresh(TMap(INT, t.elem), "compinit").z)
    app = ast.Expr(ast.Call(func=ast.Attribute(value=ast.Name(id=name, ctx=ast.Load()), attr="append", ctx=ast.Load()),
                            args=[node.elt], keywords=[]))
    body = [app]
    for cond in reversed(gen.ifs):
        body = [ast.If(test=cond, body=body, orelse=[])]
    loop = ast.For(target=gen.target, iter=gen.iter, body=body, orelse=[])
    for n_ in ast.walk(loop):
        ast.copy_location(n_, node)
    ast.fix_missing_locations(loop)
    ex.loop_ord[id(loop)] = k
    from .forloops import exec_for
    saved = _save_targets(st, gen.target)
    exits = exec_for(ex, loop, st)
    normal = [e for e in exits if e[1] == "normal"]
    if len(normal) != 1 or len(exits) != 1:
        raise Unsupported("comprehension body leaves the loop abnormally")
    st.vars, st.pc, st.unbound = normal[0][0].vars, normal[0][0].pc, normal[0][0].unbound
    _restore_targets(st, saved)
    return st.vars[name]


def do_sumgen(ex, ev, g):
    """sum(elt for x in seq (if c))  ==  acc = 0; for x in seq: (if c:) acc += elt   executed as a loop cut at the invariant the
    sidecar gives for this generator's loop ordinal (the accumulator is `_sum<k>`, int unless types['_sum<k>'] says real)"""
    if len(g.generators) != 1 or g.generators[0].is_async:
        raise Unsupported("sum over several generator clauses")
    gen = g.generators[0]
    k = ex.loop_ord[id(g)]
    name = f"_sum{k}"
    t = ex.ptype(ex.variant.get(name, ex.spec.types.get(name, "int")))
    if t not in (INT, REAL):
        raise Unsupported("sum accumulator type")
    st = ev.st
    st.vars[name] = V(t, z3.RealVal(0) if t == REAL else z3.IntVal(0))
    body = [ast.AugAssign(target=ast.Name(id=name, ctx=ast.Store()), op=ast.Add(), value=g.elt)]
    for cond in reversed(gen.ifs):
        body = [ast.If(test=cond, body=body, orelse=[])]
    loop = ast.For(target=gen.target, iter=gen.iter, body=body, orelse=[])
    for n_ in ast.walk(loop):
        ast.copy_location(n_, g)
    ast.fix_missing_locations(loop)
    ex.loop_ord[id(loop)] = k
    from .forloops import exec_for
    saved = _save_targets(st, gen.target)
    exits = exec_for(ex, loop, st)
    normal = [e for e in exits if e[1] == "normal"]
    if len(normal) != 1 or len(exits) != 1:
        raise Unsupported("sum generator leaves the loop abnormally")
    st.vars, st.pc, st.unbound = normal[0][0].vars, normal[0][0].pc, normal[0][0].unbound
    _restore_targets(st, saved)
    return st.vars[name]


def _save_targets(st, target):
    """a comprehension / generator has its own scope: its target names do not touch the enclosing function's locals"""
    names = [n_.id for n_ in ast.walk(target) if isinstance(n_, ast.Name)]
    return {nm: (st.vars.get(nm), st.unbound.get(nm)) for nm in names}


def _restore_targets(st, saved):
    for nm, (v, ub) in saved.items():
        if v is None:
            st.vars.pop(nm, None)
            st.unbound.pop(nm, None)
        else:
            st.vars[nm] = v
            if ub is None:
                st.unbound.pop(nm, None)
            else:
                st.unbound[nm] = ub


# ---------------------------------------------------------------------- calls by contract
def call_by_contract(ex, ev: Eval, node: ast.Call, sp, recv, is_init=False):
    """assert requires, havoc modifies, assume ensures; the callee body is never inspected"""
    if ev.guard and sp.modifies:
        raise Unsupported("effectful call under short-circuit")
    st = ev.st
    callee_file_ast, callee_fn, callee_cls = ex.resolver(sp)
    cex = type(ex)(ex.reg, sp, callee_file_ast, callee_fn, callee_cls, file=sp.file)
    # bind parameters
    a = callee_fn.args
    params = [p for p in (list(a.posonlyargs) + list(a.args)) if not (p.arg == "self" and callee_cls)]
    defaults = dict(zip([p.arg for p in (list(a.posonlyargs) + list(a.args))][::-1], list(a.defaults)[::-1]))
    pre = State_like(None)
    mapping = {}  # callee name -> caller name (for write-back)
    argvals = {}
    for p, an in zip(params, node.args):
        argvals[p.arg] = (an, ev.expr(an))
    for k in node.keywords:
        argvals[k.arg] = (k.value, ev.expr(k.value))
    for p in params + list(a.kwonlyargs):
        if p.arg not in argvals:
            dn = defaults.get(p.arg)
            if dn is None:
                for kp, kd in zip(a.kwonlyargs, a.kw_defaults):
                    if kp.arg == p.arg:
                        dn = kd
            if dn is None:
                raise Unsupported(f"missing argument {p.arg} in call to {sp.qualname}")
            argvals[p.arg] = (None, Eval(ex, st).expr(dn))
    if sp.variants:
        # the callee is proved once per type variant: use the contract of the variant whose parameter types are the argument types
        for var in sp.variants:
            if not var:
                continue
            try:
                if all(ex.ptype(tv) == argvals[pn][1].t for pn, tv in var.items() if pn in argvals):
                    cex = type(ex)(ex.reg, sp, callee_file_ast, callee_fn, callee_cls, variant=var, file=sp.file)
                    break
            except Exception:
                continue
    for p in params + list(a.kwonlyargs):
        an, v = argvals[p.arg]
        t = cex.declared_type(p.arg, p.annotation)
        if isinstance(v.t, TObj):
            raise Unsupported("object passed as argument")
        if isinstance(v.t, TOpt) and not isinstance(t, TOpt) and not (isinstance(t, TU) and t.uname == "opaque"):
            ev.ob("none-deref", z3.Not(opt_is_none(v)), node)  # passing a possibly-None value where a value is needed
            v = opt_val(v)
        pre.vars[p.arg] = coerce_to(v, t)
        if an is not None and isinstance(an, (ast.Name, ast.Attribute)):
            mapping[p.arg] = an
    rname = None
    if recv is not None:
        if not isinstance(recv, ast.Name):
            raise Unsupported("method receiver must be a name")
        rname = recv.id
        pre.vars["self"] = V(TObj(callee_cls), None)
        for f_, ft in cex.fields_of(callee_cls).items():
            key = f"{rname}.{f_}"
            if is_init:
                if isinstance(ft, TFun):
                    pre.vars[f"self.{f_}"] = V(ft, None)
                else:
                    pre.vars[f"self.{f_}"] = ex.new_sym(ft, f"{rname}_{f_}_pre", st)
                continue
            if key not in st.vars:
                raise Unsupported(f"{key} not initialised before call")
            pre.vars[f"self.{f_}"] = st.vars[key]
    for cap in sp.captures:
        if cap not in st.vars:
            raise Unsupported(f"captured {cap} not bound at call to {sp.qualname}")
        pre.vars[cap] = st.vars[cap]
    pre.pc = st.pc  # shared: obligations are emitted against the caller's path condition
    line = node.lineno - ex.fn.lineno
    for i, r in enumerate(sp.requires):
        g = cex.clause(r, pre)
        for j, gj in enumerate(ex.conjuncts(g)):
            ex.emit(st, f"call-pre[{sp.qualname}]#{i}" + (f".{j}" if j else ""), gj, line, extra_hyps=ev.guard)
    # recursion: measure decreases
    if sp.key == ex.spec.key and sp.decreases:
        m_callee = cex.spec_value(sp.decreases, pre)
        m_self = ex.spec_value(ex.spec.decreases, ex.old)
        ex.emit(st, "decreases", z3.And(m_callee.z >= 0, m_callee.z < m_self.z), line, extra_hyps=ev.guard)
    # post state
    post = State_like(pre)
    post.pc = st.pc
    for m in sp.modifies:
        v0 = pre.vars.get(m)
        if v0 is None:
            raise Unsupported(f"modifies {m}: unknown in callee frame")
        post.vars[m] = v0 if isinstance(v0.t, TFun) else ex.new_sym(v0.t, f"{sp.qualname.split('.')[-1]}_{m}", st)
    rt = cex.ptype(sp.ret) if sp.ret else cex.ann_src(ast.unparse(callee_fn.returns) if callee_fn.returns is not None else "None")
    res = V(NONE, z3.BoolVal(True)) if rt == NONE else ex.new_sym(rt, f"ret_{sp.qualname.split('.')[-1]}", st)
    for e in sp.ensures:
        st.pc.append(cex.clause(e, post, old=pre, result=res))
    # write back
    if is_init:
        for f_, ft in cex.fields_of(callee_cls).items():
            st.vars[f"{rname}.{f_}"] = post.vars[f"self.{f_}"]
    for m in sp.modifies:
        if m.startswith("self."):
            st.vars[f"{rname}.{m[5:]}"] = post.vars[m]
        elif m in sp.captures:
            st.vars[m] = post.vars[m]
        elif m in mapping:
            ex.assign(st, mapping[m], post.vars[m], ev)
        else:
            raise Unsupported(f"modified argument {m} is not a name at the call site")
    ex.assumed_contracts.add(sp.key) if hasattr(ex, "assumed_contracts") else None
    return res


class State_like:
    def __init__(self, st):
        self.vars = dict(st.vars) if st is not None else {}
        self.pc = []

    def copy(self):
        s = State_like(self)
        s.pc = list(self.pc)
        return s

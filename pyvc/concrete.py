"""Counter-model search by finite instantiation, and native replay of a counter-model on the real code.

`finite_inst` expands universally quantified hypotheses over a small index range, which turns the
(undecidable) quantified query into a quantifier-free one whose models are *candidate* counterexamples.
A candidate never counts by itself: `replay` runs the real function from /repo on it and evaluates the
contract on the concrete pre/post states (ghost post-state existentially quantified).
"""
from __future__ import annotations

import copy
import importlib
import itertools
import os
import sys
from fractions import Fraction

import z3

from .types import (BOOL, INT, NONE, REAL, TDict, TList, TMap, TObj, TOpt, TSet, TTuple, TU, T, V, list_arr,
                    list_len, mk_list, mk_tuple, opt_none, opt_some, sort_of)


def finite_inst(e, N, pol=True):
    if z3.is_quantifier(e):
        expand = (e.is_forall() and pol) or (e.is_exists() and not pol)
        nv = e.num_vars()
        if expand and all(e.var_sort(i) == z3.IntSort() for i in range(nv)) and (N + 2) ** nv <= 1300:
            body = e.body()
            insts = []
            for vals in itertools.product(range(-1, N + 1), repeat=nv):
                # de Bruijn: var 0 is the LAST bound variable
                sub = [z3.IntVal(v) for v in reversed(vals)]
                insts.append(finite_inst(z3.substitute_vars(body, *sub), N, pol))
            return z3.And(*insts) if e.is_forall() else z3.Or(*insts)
        return e
    if z3.is_and(e):
        return z3.And(*[finite_inst(c, N, pol) for c in e.children()])
    if z3.is_or(e):
        return z3.Or(*[finite_inst(c, N, pol) for c in e.children()])
    if z3.is_not(e):
        return z3.Not(finite_inst(e.arg(0), N, not pol))
    if z3.is_implies(e):
        return z3.Implies(finite_inst(e.arg(0), N, not pol), finite_inst(e.arg(1), N, pol))
    return e


def bit_table(n=40):
    """concrete values of the abstracted bit functions on small arguments (used only for counter-model
    search and replay, where up/lo must not be left uninterpreted)"""
    from .expr import LO, UP
    out = []
    for k in range(0, n):
        out.append(LO(k) == (k & (k + 1)))
        out.append(UP(k) == (k | (k + 1)))
    return out


def size_bounds(input_syms, N):
    out = bit_table()
    for v in input_syms.values():
        if v.z is None:
            continue
        if isinstance(v.t, TList):
            out.append(list_len(v) <= N)
            if isinstance(v.t.elem, TList):
                for i in range(N):
                    out.append(list_len(V(v.t.elem, z3.Select(list_arr(v), i))) <= N)
        if v.t == INT:
            out.append(z3.And(v.z >= -8, v.z <= 8))
    return out


def candidate_models(hyps, goal, input_syms, N=3, timeout_ms=8000, limit=24):
    """generator of distinct candidate counter-models (distinct on the real, non-ghost inputs)"""
    produced = 0
    for n in (N, N + 1, N + 3):
        s = z3.Solver()
        s.set("timeout", timeout_ms)
        for h in hyps:
            s.add(finite_inst(h, n, True))
        s.add(finite_inst(z3.Not(goal), n, True))
        for b in size_bounds(input_syms, n):
            s.add(b)
        while produced < limit and s.check() == z3.sat:
            m = s.model()
            produced += 1
            yield m
            block = []
            for k, v in input_syms.items():
                if v.z is None or isinstance(v.t, TMap):
                    continue
                if v.t in (INT, BOOL):
                    block.append(v.z != m.eval(v.z, model_completion=True))
                elif isinstance(v.t, TList) and v.t.elem in (INT, BOOL):
                    ln = m.eval(list_len(v), model_completion=True)
                    block.append(list_len(v) != ln)
                    for i in range(min(ln.as_long(), n)):
                        sel = z3.Select(list_arr(v), i)
                        block.append(sel != m.eval(sel, model_completion=True))
            if not block:
                break
            s.add(z3.Or(*block))


def candidate_model(hyps, goal, input_syms, N=3, timeout_ms=8000):
    for m in candidate_models(hyps, goal, input_syms, N, timeout_ms, limit=1):
        return m
    return None


# ---------------------------------------------------------------- concrete values
def to_v(t: T, x) -> V:
    if t == INT:
        return V(INT, z3.IntVal(int(x)))
    if t == REAL:
        if isinstance(x, str):
            return V(REAL, z3.RealVal(x))
        return V(REAL, z3.RealVal(str(Fraction(x))))
    if t == BOOL:
        return V(BOOL, z3.BoolVal(bool(x)))
    if t == NONE:
        return V(NONE, z3.BoolVal(True))
    if isinstance(t, TList):
        arr = z3.K(z3.IntSort(), default_of(t.elem).z)
        for i, e in enumerate(x):
            arr = z3.Store(arr, i, to_v(t.elem, e).z)
        return mk_list(t, z3.IntVal(len(x)), arr)
    if isinstance(t, TMap):
        if isinstance(x, dict) and "map_first_16" in x:
            xs = x["map_first_16"]
            arr = z3.K(sort_of(t.k), to_v(t.v, xs[-1]).z)
            for i, e in enumerate(xs):
                arr = z3.Store(arr, i, to_v(t.v, e).z)
            return V(t, arr)
    if isinstance(t, TTuple):
        return mk_tuple(t, [to_v(it, e).z for it, e in zip(t.items, x)])
    if isinstance(t, TOpt):
        return opt_none(t) if x is None else opt_some(t, to_v(t.t, x).z)
    if isinstance(t, TDict) and isinstance(x, dict):
        from .types import mk_dict, sort_of as _so
        dom = z3.K(_so(t.k), z3.BoolVal(False))
        val = z3.K(_so(t.k), default_of(t.v).z)
        for k_, v_ in x.items():
            kz = to_v(t.k, k_).z
            dom = z3.Store(dom, kz, z3.BoolVal(True))
            val = z3.Store(val, kz, to_v(t.v, v_).z)
        return mk_dict(t, dom, val, z3.IntVal(len(x)))
    if isinstance(t, TSet) and isinstance(x, (set, frozenset)):
        from .types import mk_set, sort_of as _so
        mem = z3.K(_so(t.k), z3.BoolVal(False))
        for e in x:
            mem = z3.Store(mem, to_v(t.k, e).z, z3.BoolVal(True))
        return mk_set(t, mem, z3.IntVal(len(x)))
    raise TypeError(f"cannot concretise {t}: {x!r}")


def default_of(t: T) -> V:
    if t == INT:
        return V(INT, z3.IntVal(0))
    if t == REAL:
        return V(REAL, z3.RealVal(0))
    if t == BOOL:
        return V(BOOL, z3.BoolVal(False))
    if isinstance(t, TList):
        return to_v(t, [])
    if isinstance(t, TTuple):
        return mk_tuple(t, [default_of(i).z for i in t.items])
    if isinstance(t, TOpt):
        return opt_none(t)
    raise TypeError(f"no default for {t}")


def import_real(relfile: str):
    repo = os.environ.get("VERIF_REPO", "/repo")
    if sys.path[0] != repo:
        sys.path.insert(0, repo)
    modname = relfile[:-3].replace("/", ".")
    return importlib.import_module(modname)


def native_call(sp, cls_name, fn_name, pre: dict, param_names):
    """run the real function on concrete inputs; returns (result, post_fields/args, exception)"""
    mod = import_real(sp.file)
    args = [copy.deepcopy(pre[p]) for p in param_names]
    if cls_name:
        cls = getattr(mod, cls_name)
        if fn_name == "__init__":
            obj = cls.__new__(cls)
            try:
                obj.__init__(*args)
            except Exception as e:  # noqa
                return None, {}, e
            res = None
        else:
            obj = cls.__new__(cls)
            for k, v in pre.items():
                if k.startswith("self.") and not is_ghost(sp, cls_name, k[5:]):
                    setattr(obj, k[5:], copy.deepcopy(v))
            attr = getattr(cls, fn_name)
            try:
                res = attr.fget(obj) if isinstance(attr, property) else getattr(obj, fn_name)(*args)
            except Exception as e:  # noqa
                return None, {}, e
        post = {}
        for slot in getattr(cls, "__slots__", ()) or vars(obj).keys():
            if hasattr(obj, slot):
                post[f"self.{slot}"] = getattr(obj, slot)
        for p, a in zip(param_names, args):
            post[p] = a
        return res, post, None
    f = getattr(mod, fn_name)
    f = getattr(f, "__wrapped__", f)  # functions behind @with_rust_backend: the Python implementation itself
    import inspect
    sig = inspect.signature(f)
    pos, kw = [], {}
    for p, a in zip(param_names, args):
        if p in sig.parameters and sig.parameters[p].kind == inspect.Parameter.KEYWORD_ONLY:
            kw[p] = a
        else:
            pos.append(a)
    try:
        res = f(*pos, **kw)
    except Exception as e:  # noqa
        return None, {}, e
    return res, dict(zip(param_names, args)), None


def is_ghost(sp, cls_name, field):
    from .spec import REG
    c = REG.classes.get(cls_name)
    return bool(c and field in c.ghost)


def replay(key: str, cex: dict, variant=None):
    """returns dict(confirmed: bool, detail: str).  confirmed=True: the real code, run on the concrete
    pre-state, ends in a state for which NO ghost post-state satisfies the ensures (or raises)."""
    from .spec import REG
    from .source import locate
    from .symexec import Executor, State
    sp = REG.fns[key]
    mod, fn, cls = locate(sp.file, sp.qualname)
    ex = Executor(REG, sp, mod, fn, cls, variant=variant)
    st = ex.entry_state()  # symbolic entry: gives names and types
    a = fn.args
    pnames = [p.arg for p in list(a.posonlyargs) + list(a.args) + list(a.kwonlyargs) if not (p.arg == "self" and cls)]
    pre = State()
    ghost_pre_unknown = []
    for name, v in ex.input_syms.items():
        if v.z is None:
            pre.vars[name] = v
            continue
        if name in cex and cex[name] is not None or (name in cex and isinstance(v.t, TOpt)):
            try:
                pre.vars[name] = to_v(v.t, cex[name])
                continue
            except TypeError:
                pass
        pre.vars[name] = v  # left symbolic (existential)
        ghost_pre_unknown.append(name)
    N = 1
    for name, x in cex.items():
        if isinstance(x, list):
            N = max(N, len(x) + 1)
    s = z3.Solver()
    s.set("timeout", 20000)
    s.add(*bit_table())
    for r in sp.requires:
        s.add(finite_inst(ex.clause(r, pre), N, True))
    for h in pre.pc:
        s.add(finite_inst(h, N, True))
    if s.check() != z3.sat:
        return {"confirmed": False, "detail": "candidate does not satisfy the requires (spurious)"}
    m = s.model()
    # fix remaining symbolic pre-state (ghost) to the witness
    import signal

    class _Hang(BaseException):
        pass

    def _on_alarm(signum, frame):
        raise _Hang()

    # CPU-time budget (ITIMER_VIRTUAL): a loaded machine must not turn a slow call into a 'hang'
    old_handler = signal.signal(signal.SIGVTALRM, _on_alarm)
    signal.setitimer(signal.ITIMER_VIRTUAL, 10)
    try:
        try:
            res, post_py, exc = native_call(sp, cls, fn.name, cex, pnames)
        finally:
            signal.setitimer(signal.ITIMER_VIRTUAL, 0)
    except _Hang:
        return {"confirmed": True, "detail": "real code does not return within 10 s of CPU time on this input (state satisfies the requires)",
                "observed": "no return"}
    except Exception as e:  # construction failed
        return {"confirmed": False, "detail": f"could not build native input: {e!r}"}
    finally:
        signal.signal(signal.SIGVTALRM, old_handler)
    if exc is not None:
        if sp.raises_ok or isinstance(exc, (ValueError, NotImplementedError)):
            # input validation: the call returns nothing, the contracts say nothing about it
            return {"confirmed": False, "detail": f"raises {exc!r} (input rejected)"}
        return {"confirmed": True, "detail": f"real code raises {exc!r} on a state satisfying the requires",
                "observed": repr(exc)}
    post = State()
    for name, v in pre.vars.items():
        post.vars[name] = v
    mods = set(sp.modifies)
    for name, v in ex.input_syms.items():
        if v.z is None:
            continue
        real = name in post_py
        if real:
            try:
                post.vars[name] = to_v(v.t, post_py[name])
            except TypeError as e:
                if isinstance(v.t, TU):
                    post.vars[name] = pre.vars[name]  # uninterpreted value (string, Random instance): not tracked
                    continue
                return {"confirmed": False, "detail": f"cannot concretise post {name}: {e}"}
        elif name in mods:
            from .types import fresh
            post.vars[name] = fresh(v.t, name.replace(".", "_") + "_post")
    if fn.name == "__init__":
        c = REG.classes.get(cls)
        for f_, ft in (c.fields if c else {}).items():
            if f"self.{f_}" in post_py:
                post.vars[f"self.{f_}"] = to_v(ex.ptype(ft), post_py[f"self.{f_}"])
    rt = ex.ptype(sp.ret) if sp.ret else ex.ann_src(__import__("ast").unparse(fn.returns) if fn.returns is not None else "None")
    try:
        resv = V(NONE, z3.BoolVal(True)) if rt == NONE else to_v(rt, res)
    except TypeError as e:
        return {"confirmed": False, "detail": f"cannot concretise result: {e}"}
    for name in post_py:
        if isinstance(post_py[name], list):
            N = max(N, len(post_py[name]) + 1)
    s2 = z3.Solver()
    s2.set("timeout", 20000)
    s2.add(*bit_table())
    for r in sp.requires:
        s2.add(finite_inst(ex.clause(r, pre), N, True))
    # non-modified inputs must be unchanged (frame)
    for name, v in ex.input_syms.items():
        if v.z is None or name in mods:
            continue
        if name in post_py and not pre.vars[name].z.eq(post.vars[name].z):
            s2.add(pre.vars[name].z == post.vars[name].z)
    s2.push()
    for e in sp.ensures:
        s2.add(finite_inst(ex.clause(e, post, old=pre, result=resv), N, True))
    for h in post.pc + pre.pc:
        s2.add(finite_inst(h, N, True))
    r = s2.check()
    if r == z3.unsat:
        # locate the first clause that cannot be met
        bad = None
        s2.pop()
        for e in sp.ensures:
            s2.push()
            s2.add(finite_inst(ex.clause(e, post, old=pre, result=resv), N, True))
            if s2.check() == z3.unsat:
                bad = e
                s2.pop()
                break
            s2.pop()
        return {"confirmed": True, "detail": f"real code on this input violates ensures: {bad or 'conjunction of ensures'}",
                "observed": {"result": repr(res), "post": {k: repr(v) for k, v in post_py.items()}}}
    return {"confirmed": False, "detail": f"contract satisfiable on the native outcome ({r})",
            "observed": {"result": repr(res), "post": {k: repr(v) for k, v in post_py.items()}}}


def random_value(t: T, rng, N, pool=()):
    if isinstance(t, TU) and t.uname == "rng":
        import random as _r
        return _r.Random(rng.randint(0, 10 ** 6))
    if isinstance(t, TU) and t.uname == "opaque" and pool:
        return rng.choice(list(pool))  # an uninterpreted str parameter: one of the string literals the function compares with
    if t == INT:
        return rng.randint(-1, N + 1)
    if t == REAL:
        return rng.choice([0, 1, -1, 2, 0.5, -2.5, 3])
    if t == BOOL:
        return rng.random() < 0.5
    if isinstance(t, TList):
        return [random_value(t.elem, rng, N, pool) for _ in range(rng.randint(0, N))]
    if isinstance(t, TTuple):
        return tuple(random_value(i, rng, N, pool) for i in t.items)
    if isinstance(t, TOpt):
        return None if rng.random() < 0.3 else random_value(t.t, rng, N, pool)
    raise TypeError(str(t))


def random_search(key, variant=None, budget=80, seed=0, N=4, wall_s=40):
    """short bounded search around one function: random small real inputs, ghost state completed by the
    solver, real code run, contract evaluated on the outcome.  Returns (input, replay result) or None."""
    import random as _r
    from .spec import REG
    from .source import locate
    from .symexec import Executor
    rng = _r.Random(seed)
    sp = REG.fns[key]
    mod, fn, cls = locate(sp.file, sp.qualname)
    ex = Executor(REG, sp, mod, fn, cls, variant=variant)
    ex.entry_state()
    ghost = set()
    if cls and cls in REG.classes:
        ghost = {f"self.{g}" for g in REG.classes[cls].ghost}
    tried = 0
    import ast as _ast
    pool = sorted({c.value for n in _ast.walk(fn) if isinstance(n, _ast.Compare) for c in [n.left] + list(n.comparators)
                   if isinstance(c, _ast.Constant) and isinstance(c.value, str)})
    import time as _t
    t_end = _t.time() + wall_s
    for _ in range(budget * 6):
        if tried >= budget or _t.time() > t_end:
            break
        cex = {}
        try:
            for name, v in ex.input_syms.items():
                if v.z is None or name in ghost or isinstance(v.t, TMap):
                    continue
                cex[name] = random_value(v.t, rng, N, pool)
        except TypeError:
            return None
        rp = replay(key, cex, variant)
        if "does not satisfy the requires" in rp.get("detail", ""):
            continue
        tried += 1
        if rp.get("confirmed"):
            return cex, rp
    return None

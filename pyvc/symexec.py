"""Forward symbolic execution of one real function against its sidecar contract (DESIGN 3.1).

The function body is the AST parsed from /repo's working tree on this run.  Loops are cut at the
supplied invariants, calls are replaced by callee contracts, every return proves the ensures,
every subscript / key / division generates a side obligation.
"""
from __future__ import annotations

import ast
import copy

import z3

from .expr import LO, UP, Eval, Unsupported, coerce_num, coerce_to, ufun
from .spec import FnSpec, LoopSpec, Registry
from .types import (BOOL, INT, NONE, REAL, TDict, TFun, TList, TMap, TObj, TOpt, TRec, TSet, TTuple, TU, T, V,
                    dict_card, dict_dom, dict_val, fresh, list_arr, list_len, mk_dict, mk_list, mk_set, mk_tuple,
                    opt_is_none, opt_none, opt_some, opt_val, parse_type, set_card, set_mem, sort_of, tuple_get)

MUTATING = {"append", "pop", "extend", "insert", "remove", "reverse", "sort", "clear", "add", "discard", "update",
            "popleft", "appendleft", "setdefault"}


class Drift(Exception):
    """the real source no longer matches the sidecar (missing function, loop count, unknown names)"""


class State:
    def __init__(self):
        self.vars: dict[str, V] = {}
        self.pc: list = []
        self.unbound: dict[str, object] = {}  # name -> condition under which the local is NOT bound

    def copy(self):
        s = State()
        s.vars = dict(self.vars)
        s.pc = list(self.pc)
        s.unbound = dict(self.unbound)
        return s


class Obligation:
    def __init__(self, name, hyps, goal, kind, line=None, expect="valid"):
        self.name, self.hyps, self.goal, self.kind, self.line = name, hyps, goal, kind, line
        self.expect = expect  # 'valid' | 'refutable' (cover canaries: goal False must NOT be provable)


def type_facts(v: V, depth=0):
    """representation facts of the sorts: lengths and cardinalities are non-negative"""
    out = []
    if isinstance(v.t, TList):
        out.append(list_len(v) >= 0)
        if isinstance(v.t.elem, TList) and depth == 0:
            # rows of a list of lists are lists too (non-negative length), at every index
            j = z3.Int("j!rowlen")
            row = V(v.t.elem, z3.Select(list_arr(v), j))
            out.append(z3.ForAll([j], list_len(row) >= 0, patterns=[z3.Select(list_arr(v), j)]))
    elif isinstance(v.t, TDict):
        out.append(dict_card(v) >= 0)
    elif isinstance(v.t, TSet):
        out.append(set_card(v) >= 0)
    elif isinstance(v.t, TTuple):
        for i in range(len(v.t.items)):
            out.extend(type_facts(tuple_get(v, i), depth + 1))
    return out


def loops_of(fn_node):
    """pre-order list of loops of a function, not descending into nested defs"""
    out = []

    def walk(n):
        for c in ast.iter_child_nodes(n):
            if isinstance(c, (ast.FunctionDef, ast.AsyncFunctionDef, ast.ClassDef, ast.Lambda)):
                continue
            if isinstance(c, (ast.For, ast.While, ast.ListComp)):
                out.append(c)  # a list comprehension is a loop (over its single generator) that appends
            if (isinstance(c, ast.Call) and isinstance(c.func, ast.Name) and c.func.id in ("sum", "deque", "list") and len(c.args) == 1
                    and isinstance(c.args[0], ast.GeneratorExp)):
                out.append(c.args[0])  # sum(<elt> for x in xs) accumulates into `_sum<k>`; deque / list(<elt> for ..) builds `_comp<k>`
            walk(c)

    walk(fn_node)
    return out


def target_root(t):
    """name that is (partly) overwritten by assigning to target t"""
    if isinstance(t, ast.Name):
        return [t.id]
    if isinstance(t, ast.Attribute):
        if isinstance(t.value, ast.Name):
            return [f"{t.value.id}.{t.attr}"]
        return target_root(t.value)
    if isinstance(t, ast.Subscript):
        return target_root(t.value)
    if isinstance(t, (ast.Tuple, ast.List)):
        r = []
        for e in t.elts:
            r.extend(target_root(e))
        return r
    if isinstance(t, ast.Starred):
        return target_root(t.value)
    raise Unsupported(f"assignment target {ast.unparse(t)}")


class Executor:
    def __init__(self, reg: Registry, spec: FnSpec, module_ast, fn_node, cls_name=None, variant=None, file=None):
        self.reg, self.spec, self.mod, self.fn, self.cls = reg, spec, module_ast, fn_node, cls_name
        self.variant = variant or {}
        self.file = file or spec.file
        self.obls: list[Obligation] = []
        self.loops = loops_of(fn_node)
        self.loop_ord = {id(n): i + 1 for i, n in enumerate(self.loops)}
        self.prefix = f"{spec.prop}/{spec.file}::{spec.qualname}"
        if variant:
            self.prefix += "{" + ",".join(f"{k}:{v}" for k, v in variant.items() if not k.startswith("_")) + "}"
        self.assumed: list[str] = []
        self.old: State | None = None
        self.ret_t: T | None = None
        self.nested = {n.name: n for n in fn_node.body if isinstance(n, ast.FunctionDef)}
        self.input_syms: dict[str, V] = {}
        tp = [t.name for t in getattr(fn_node, "type_params", [])] if fn_node is not None else []
        if cls_name and module_ast is not None:
            for n in ast.walk(module_ast):
                if isinstance(n, ast.ClassDef) and n.name == cls_name:
                    tp += [t.name for t in getattr(n, "type_params", [])]
        self.generics = tuple(spec.generics) + tuple(x for x in tp if x not in spec.generics)
        self.n_ret = 0
        self.lemma_hyps: list = []
        self.uses_inf = fn_node is not None and "inf" in ast.unparse(fn_node)

    # ------------------------------------------------------------------ setup
    def ptype(self, s: str) -> T:
        s = s.strip()
        if s.startswith("fun:"):
            fd = self.reg.funs[s[4:]]
            return TFun([self.ptype(a) for a in fd["args"]], self.ptype(fd["ret"]), s[4:], fd["pure"])
        if s in ("opaque", "rng"):
            return TU(s)
        if s.startswith("funs:"):  # sequence of callbacks of one kind: tokens of an uninterpreted sort
            return TList(TU("cb_" + s[5:]))
        m = __import__("re").match(r"^(\w+)\[(.*)\]$", s)
        if m and m.group(1) in self.reg.records:
            fields = {}
            for k, v in self.reg.records[m.group(1)].items():
                fields[k] = self.ptype(v.replace("$T", m.group(2)))
            return TRec(m.group(1), fields)
        if s in self.reg.records:
            return TRec(s, {k: self.ptype(v) for k, v in self.reg.records[s].items()})
        if s.startswith("opt[") and s.endswith("]"):
            return TOpt(self.ptype(s[4:-1]))
        if s.startswith("list[") and s.endswith("]"):
            return TList(self.ptype(s[5:-1]))
        return parse_type(s, self.generics)

    def ann_type(self, a) -> T:
        if a is None:
            raise Unsupported("missing annotation")
        src = ast.unparse(a)
        return self.ann_src(src)

    def ann_src(self, src: str) -> T:
        src = src.replace(" ", "")
        if src.endswith("|None"):
            return TOpt(self.ann_src(src[:-5]))
        m = {"int": INT, "float": REAL, "bool": BOOL, "None": NONE}
        if src in m:
            return m[src]
        if src in self.generics:
            return TU(src)
        if src in getattr(self.reg, "records", {}):
            return self.reg.records[src]
        if src in self.reg.classes:
            return TObj(src)
        for head in ("list", "set", "dict", "tuple", "Sequence", "Iterable"):
            if src.startswith(head + "["):
                inner = src[len(head) + 1:-1]
                parts, depth, cur = [], 0, ""
                for ch in inner:
                    if ch == "[":
                        depth += 1
                    elif ch == "]":
                        depth -= 1
                    if ch == "," and depth == 0:
                        parts.append(cur); cur = ""
                    else:
                        cur += ch
                parts.append(cur)
                ts = [self.ann_src(p) for p in parts if p != "..."]
                if head in ("list", "Sequence", "Iterable"):
                    return TList(ts[0])
                if head == "set":
                    return TSet(ts[0])
                if head == "dict":
                    return TDict(ts[0], ts[1])
                if "..." in parts:
                    return TList(ts[0])
                return TTuple(ts)
        raise Unsupported(f"annotation {src}")

    def declared_type(self, name, ann=None) -> T:
        if name in self.variant:
            return self.ptype(self.variant[name])
        if name in self.spec.types:
            return self.ptype(self.spec.types[name])
        if ann is not None:
            return self.ann_type(ann)
        raise Unsupported(f"no type for {name}")

    def fields_of(self, cls):
        c = self.reg.classes.get(cls)
        if c is None:
            raise Unsupported(f"class {cls} has no ClassSpec")
        d = {}
        for k, v in c.fields.items():
            d[k] = self.ptype(v)
        for k, v in c.ghost.items():
            d[k] = self.ptype(v)
        return d

    def new_sym(self, t: T, hint: str, st: State) -> V:
        if isinstance(t, TObj):
            raise Unsupported("object-typed symbol must be flattened")
        if isinstance(t, TFun):
            return V(t, None)
        v = fresh(t, hint)
        st.pc.extend(type_facts(v))
        return v

    def bind_sym(self, st: State, name: str, t: T, hint=None):
        if isinstance(t, TObj):
            for f, ft in self.fields_of(t.cls).items():
                self.bind_sym(st, f"{name}.{f}", ft)
            st.vars[name] = V(t, None)
            return
        st.vars[name] = self.new_sym(t, hint or name, st)

    def entry_state(self) -> State:
        st = State()
        a = self.fn.args
        params = list(a.posonlyargs) + list(a.args) + list(a.kwonlyargs)
        is_init = self.fn.name == "__init__"
        for p in params:
            if p.arg == "self" and self.cls:
                if not is_init:
                    self.bind_sym(st, "self", TObj(self.cls))
                else:
                    st.vars["self"] = V(TObj(self.cls), None)
                    # ghost fields exist from the start with arbitrary values; real fields are unset
                    c = self.reg.classes.get(self.cls)
                    for g, gt in (c.ghost if c else {}).items():
                        self.bind_sym(st, f"self.{g}", self.ptype(gt))
                continue
            t = self.declared_type(p.arg, p.annotation)
            self.bind_sym(st, p.arg, t)
        for name, ts in self.spec.captures.items():
            self.bind_sym(st, name, self.ptype(self.variant.get(name, ts)))
        self.input_syms = dict(st.vars)
        from .expr import INF
        st.pc.append(INF >= z3.RealVal(10 ** 308))  # float('inf') exceeds every finite double (A2)
        self.lemma_hyps = self.lemma_axioms()
        st.pc.extend(self.lemma_hyps)
        for i, r in enumerate(self.spec.requires):
            st.pc.append(self.clause(r, st, old=None))
        return st

    def param_names(self):
        a = self.fn.args
        return [p.arg for p in list(a.posonlyargs) + list(a.args) + list(a.kwonlyargs) if p.arg != "self"]

    def lemma_axioms(self):
        from .lemmas import lemma_formulas
        return lemma_formulas(self, self.spec.lemmas)

    # ------------------------------------------------------------------ clauses
    def parse_clause(self, src: str):
        try:
            return ast.parse(src.strip(), mode="eval").body
        except SyntaxError as e:
            raise Unsupported(f"contract syntax: {src}: {e}")

    def name_values(self, st):
        """give every non-atomic value in the state a name (fresh constant + defining equation) so that
        quantifier patterns over it are legal and stable"""
        cache = self.__dict__.setdefault("_named", {})
        for k, v in list(st.vars.items()):
            z = v.z
            if z is None or (z3.is_const(z) and z.decl().kind() == z3.Z3_OP_UNINTERPRETED):
                continue
            if v.t in (INT, REAL, BOOL, NONE):
                continue
            key = z.get_id()
            if key not in cache:
                c = fresh(v.t, k.replace(".", "_") + "_v")
                cache[key] = (c, z)
                self.__dict__.setdefault("_named_rev", {})[c.z.get_id()] = z
            c, z0 = cache[key]
            eq = c.z == z0
            if not any(eq.eq(h) for h in st.pc[-40:]):
                st.pc.append(eq)
            st.vars[k] = c

    def clause(self, src: str, st: State, old=None, result=None, bound=None):
        if "forall" in src or "exists" in src or any(m in src for m in self.reg.macros):
            self.name_values(st)
            if old is not None:
                self.name_values(old)
        ev = Eval(self, st, spec_mode=True, bound=bound, old_state=old, result=result)
        return ev.boolean(self.parse_clause(src))

    def spec_value(self, src: str, st: State, old=None, result=None, bound=None) -> V:
        ev = Eval(self, st, spec_mode=True, bound=bound, old_state=old, result=result)
        return ev.expr(self.parse_clause(src))

    # ------------------------------------------------------------------ obligations
    def emit(self, st: State, kind: str, goal, line=None, extra_hyps=(), expect="valid"):
        n = sum(1 for o in self.obls if o.kind == kind and o.line == line)
        tag = f"@{line}" if line is not None else ""
        name = f"{self.prefix}/{kind}{tag}" + (f"#{n}" if n else "")
        self.obls.append(Obligation(name, list(st.pc) + list(extra_hyps), goal, kind, line, expect))

    def side_obligation(self, st, kind, goal, node, guard):
        line = getattr(node, "lineno", None)
        rel = None if line is None else line - self.fn.lineno
        self.emit(st, kind, goal, rel, extra_hyps=guard)
        st.pc.append(z3.Implies(z3.And(*guard), goal) if guard else goal)

    def emit_goal_split(self, st, kind, goal, line=None):
        """split top-level conjunctions into separate obligations"""
        for g in self.conjuncts(goal):
            self.emit(st, kind, g, line)

    def conjuncts(self, g):
        if z3.is_and(g):
            out = []
            for c in g.children():
                out.extend(self.conjuncts(c))
            return out
        return [g]

    # ------------------------------------------------------------------ running
    def run(self) -> list[Obligation]:
        st = self.entry_state()
        self.old = st.copy()
        # vacuity: requires must be satisfiable (the obligation 'False' must be refutable)
        self.emit(st, "pre-sat", z3.BoolVal(False), expect="refutable")
        rt = self.spec.ret or (ast.unparse(self.fn.returns) if self.fn.returns is not None else "None")
        self.ret_t = self.declared_type("return") if "return" in self.spec.types or "return" in self.variant else (
            self.ptype(self.spec.ret) if self.spec.ret else self.ann_src(rt))
        exits = self.block(self.body_stmts(), st)
        for s, kind, payload in exits:
            if kind == "normal":
                self.do_return(s, None, self.fn)
            elif kind in ("break", "continue"):
                raise Unsupported("break/continue outside loop")
        return self.obls

    def body_stmts(self):
        body = list(self.fn.body)
        if body and isinstance(body[0], ast.Expr) and isinstance(body[0].value, ast.Constant) and isinstance(
                body[0].value.value, str):
            body = body[1:]  # docstring dropped
        return body

    def block(self, stmts, st: State):
        """returns list of (state, kind, payload); kind in normal/return/break/continue"""
        cur = [st]
        out = []
        for s in stmts:
            nxt = []
            for c in cur:
                for (s2, kind, payload) in self.stmt(s, c):
                    if kind == "normal":
                        nxt.append(s2)
                    else:
                        out.append((s2, kind, payload))
            cur = nxt
            if not cur:
                break
        out.extend((c, "normal", None) for c in cur)
        return out

    def stmt(self, s, st: State):
        m = getattr(self, "s_" + type(s).__name__, None)
        if m is None:
            raise Unsupported(f"statement {type(s).__name__} at line {s.lineno}")
        if self.spec.ghost_before:
            src = ast.unparse(s).strip()
            for pat, gvar, gexpr in self.spec.ghost_before:
                if src.startswith(pat):
                    self.set_ghost(st, gvar, gexpr)
        r = m(s, st)
        self.ghost_hooks(s, r)
        return r

    def set_ghost(self, s2, gvar, gexpr):
        gv = self.spec_value(gexpr, s2, old=self.old)
        if gv.t == BOOL and not z3.is_const(gv.z):
            nm = fresh(BOOL, "ghost_" + gvar)  # snapshot: later clauses see an atom, not the formula
            s2.pc.append(nm.z == gv.z)
            gv = nm
        s2.vars[gvar] = gv

    def ghost_hooks(self, s, results):
        if not self.spec.ghost_after:
            return
        src = ast.unparse(s)
        for pat, gvar, gexpr in self.spec.ghost_after:
            if src.strip().startswith(pat):
                for (s2, kind, _) in results:
                    if kind == "normal":
                        self.set_ghost(s2, gvar, gexpr)

    # -- simple statements
    def s_Pass(self, s, st):
        return [(st, "normal", None)]

    def s_Expr(self, s, st):
        if isinstance(s.value, ast.Constant):
            return [(st, "normal", None)]
        ev = Eval(self, st)
        ev.expr(s.value)
        return [(st, "normal", None)]

    def s_Assert(self, s, st):
        ev = Eval(self, st)
        c = ev.boolean(s.test)
        self.emit(st, "assert", c, s.lineno - self.fn.lineno)
        st.pc.append(c)
        return [(st, "normal", None)]

    def s_Raise(self, s, st):
        if not self.spec.raises_ok:
            self.emit(st, "unreachable", z3.BoolVal(False), s.lineno - self.fn.lineno)
        return []

    def s_Return(self, s, st):
        self.do_return(st, s.value, s)
        return []

    def s_Break(self, s, st):
        return [(st, "break", None)]

    def s_Continue(self, s, st):
        return [(st, "continue", None)]

    def s_FunctionDef(self, s, st):
        return [(st, "normal", None)]  # nested defs are separate functions under their own contract

    def s_Delete(self, s, st):
        for t in s.targets:
            if (isinstance(t, ast.Subscript) and isinstance(t.slice, ast.Slice) and t.slice.upper is None
                    and t.slice.step is None and t.slice.lower is not None):
                ev = Eval(self, st)
                base = ev.expr(t.value)
                lo = ev.expr(t.slice.lower)
                if not isinstance(base.t, TList) or lo.t != INT:
                    raise Unsupported("del on " + str(base.t))
                ln = list_len(base)
                # del xs[k:] : keep the first k elements (k >= 0 here; python clamps k to len)
                self.side_obligation(st, "slice-nonneg", lo.z >= 0, t, [])
                self.assign(st, t.value, mk_list(base.t, z3.If(lo.z < ln, lo.z, ln), list_arr(base)), ev)
            else:
                raise Unsupported("del " + ast.unparse(t))
        return [(st, "normal", None)]

    def s_Global(self, s, st):
        raise Unsupported("global")

    def s_Nonlocal(self, s, st):
        return [(st, "normal", None)]

    def s_AnnAssign(self, s, st):
        if s.value is None:
            return [(st, "normal", None)]
        ev = Eval(self, st)
        hint = None
        if isinstance(s.target, ast.Name):
            try:
                hint = self.declared_type(s.target.id, s.annotation)
            except Unsupported:
                hint = None
        v = self.expr_typed(ev, s.value, hint)
        self.assign(st, s.target, v, ev)
        return [(st, "normal", None)]

    def expr_typed(self, ev, node, hint: T | None) -> V:
        """evaluate with an expected type (needed for empty literals {} [] set())"""
        if hint is not None:
            if isinstance(node, ast.Dict) and not node.keys and isinstance(hint, TDict):
                return mk_dict(hint, z3.K(sort_of(hint.k), z3.BoolVal(False)),
                               fresh(TMap(hint.k, hint.v), "dv").z, z3.IntVal(0))
            if isinstance(node, ast.List) and not node.elts and isinstance(hint, TList):
                return mk_list(hint, z3.IntVal(0), fresh(TMap(INT, hint.elem), "le").z)
            if (isinstance(node, ast.Call) and isinstance(node.func, ast.Name) and node.func.id == "set"
                    and not node.args and isinstance(hint, TSet)):
                return mk_set(hint, z3.K(sort_of(hint.k), z3.BoolVal(False)), z3.IntVal(0))
        if hint is not None and isinstance(hint, TDict) and isinstance(node, ast.DictComp):
            from .builtins import do_dictcomp
            return do_dictcomp(self, ev, node, hint=hint)
        if (hint is not None and isinstance(hint, TTuple) and not isinstance(hint, TRec) and isinstance(node, ast.Tuple)
                and len(node.elts) == len(hint.items)):
            # a tuple literal whose items may be empty literals: (capacity, []) with the declared item types
            items = [self.expr_typed(ev, e, it) for e, it in zip(node.elts, hint.items)]
            return mk_tuple(hint, [coerce_to(v_, it).z for v_, it in zip(items, hint.items)])
        if hint is not None and isinstance(hint, TSet) and isinstance(node, ast.Set):
            elems = []
            for e in node.elts:  # {x} where x is Optional but known not None here
                xv = ev.expr(e)
                if isinstance(xv.t, TOpt) and xv.t.t == hint.k:
                    self.side_obligation(ev.st, "none-deref", z3.Not(opt_is_none(xv)), node, list(ev.guard))
                    xv = opt_val(xv)
                elems.append(coerce_to(xv, hint.k))
            mem = z3.K(sort_of(hint.k), z3.BoolVal(False))
            card = z3.IntVal(0)
            for xv in elems:
                card = z3.If(z3.Select(mem, xv.z), card, card + 1)
                mem = z3.Store(mem, xv.z, z3.BoolVal(True))
            return mk_set(hint, mem, card)
        v = ev.expr(node)
        if hint is not None and v.t != hint:
            if isinstance(hint, TDict) and isinstance(v.t, TDict) and hint.k == v.t.k and hint.v == REAL and v.t.v == INT:
                raise Unsupported("dict[int values] where dict[float values] is declared")
            v = coerce_to(v, hint)
        return v

    def s_Assign(self, s, st):
        ev = Eval(self, st)
        hint = None
        if len(s.targets) == 1 and isinstance(s.targets[0], ast.Name):
            nm = s.targets[0].id
            if self.is_skipped(nm):
                self.bind_skipped(st, nm)
                return [(st, "normal", None)]
            if isinstance(s.value, ast.Call) and isinstance(s.value.func, ast.Name) and s.value.func.id in self.reg.classes:
                from .builtins import construct
                construct(self, ev, s.value, nm)
                return [(st, "normal", None)]
        if len(s.targets) == 1 and isinstance(s.targets[0], ast.Name):
            nm = s.targets[0].id
            if nm in self.spec.types or nm in self.variant:
                hint = self.declared_type(nm)
            elif nm in st.vars and st.vars[nm].z is not None:
                hint = None
        if (isinstance(s.value, ast.Tuple) and len(s.targets) == 1 and isinstance(s.targets[0], ast.Tuple)
                and len(s.value.elts) == len(s.targets[0].elts)):
            vals = []
            for t, e in zip(s.targets[0].elts, s.value.elts):  # all right-hand sides first (swap idiom)
                if isinstance(t, ast.Name) and self.is_skipped(t.id):
                    vals.append(None)
                elif isinstance(t, ast.Name) and (t.id in self.spec.types or t.id in self.variant):
                    vals.append(self.expr_typed(ev, e, self.declared_type(t.id)))
                else:
                    vals.append(ev.expr(e))
            for t, v, e in zip(s.targets[0].elts, vals, s.value.elts):
                if v is None:
                    self.bind_skipped(st, t.id)
                else:
                    self.assign(st, t, v, ev)
                    if isinstance(t, ast.Name):
                        self.note_alias(t.id, e, v)
            return [(st, "normal", None)]
        v = self.expr_typed(ev, s.value, hint)
        for t in s.targets:
            self.assign(st, t, v, ev)
            if isinstance(t, ast.Name):
                self.note_alias(t.id, s.value, v)
        return [(st, "normal", None)]

    # ---- aliasing lint: value semantics is only sound if no mutable value is mutated through a second name
    def _chain(self, node):
        """(root name, number of subscripts) of a Name / Attribute / Subscript chain, or None"""
        depth = 0
        while isinstance(node, ast.Subscript) and not isinstance(node.slice, ast.Slice):
            node = node.value
            depth += 1
        if isinstance(node, ast.Name):
            return node.id, depth
        if isinstance(node, ast.Attribute) and isinstance(node.value, ast.Name):
            return f"{node.value.id}.{node.attr}", depth
        return None

    def _event(self):
        self._seq = getattr(self, "_seq", 0) + 1
        return self._seq, tuple(getattr(self, "_loop_stack", []))

    def note_alias(self, view_name, value_node, v):
        if v is None or not isinstance(v.t, (TList, TDict, TSet)):
            return
        ch = self._chain(value_node)
        if ch is None:
            return
        self.__dict__.setdefault("_views", []).append((view_name, ch[0], ch[1], self._event()))
        self.check_alias_lint()

    def note_mutation(self, target_node, extra_depth=0):
        ch = self._chain(target_node)
        if ch is None:
            return
        self.__dict__.setdefault("_mutated", []).append((ch[0], ch[1] + extra_depth, self._event()))
        self.check_alias_lint()

    def check_alias_lint(self):
        views = self.__dict__.get("_views", [])
        muts = self.__dict__.get("_mutated", [])
        for view, owner, odepth, (aseq, astack) in views:
            for root, d, (mseq, mstack) in muts:
                # a mutation that happened before the second name was created is harmless, unless both sit in a
                # common loop (the body is executed once symbolically, so 'before' may be 'after' in the next iteration)
                common_loop = any(x in mstack for x in astack)
                if mseq < aseq and not common_loop:
                    continue
                if root == view and d >= 1:
                    raise Unsupported(f"'{view}' is a second name for (part of) '{owner}' and is mutated in place: outside the value-semantics subset")
                if root == owner and d >= odepth + 2:
                    raise Unsupported(f"'{owner}' is mutated below the level at which '{view}' aliases it: outside the value-semantics subset")
                if root == owner and odepth == 0 and d >= 1 and view != owner:
                    raise Unsupported(f"'{owner}' is mutated in place while '{view}' names the same object: outside the value-semantics subset")

    def is_skipped(self, nm):
        decl = self.variant.get(nm, self.spec.types.get(nm))
        return decl is not None and (decl.startswith("fun:") or decl in ("opaque", "rng"))

    def bind_skipped(self, st, nm):
        """callables / opaque helpers (Random instances, schedules, tabu memory): the right-hand side is not
        interpreted, the variable stands for an arbitrary value of its declared kind"""
        t = self.ptype(self.variant.get(nm, self.spec.types.get(nm)))
        st.vars[nm] = V(t, None) if isinstance(t, TFun) else self.new_sym(t, nm, st)
        st.unbound.pop(nm, None)

    def s_AugAssign(self, s, st):
        ev = Eval(self, st)
        load = copy.copy(s.target)
        load.ctx = ast.Load()
        bin_ = ast.BinOp(left=load, op=s.op, right=s.value)
        ast.copy_location(bin_, s)
        ast.fix_missing_locations(bin_)
        v = ev.expr(bin_)
        self.assign(st, s.target, v, ev)
        return [(st, "normal", None)]

    def assign(self, st: State, target, v: V, ev: Eval):
        if isinstance(target, ast.Name):
            nm = target.id
            if nm in self.spec.types or nm in self.variant:
                v = coerce_to(v, self.declared_type(nm))
            elif nm in st.vars and st.vars[nm].z is not None and st.vars[nm].t != v.t:
                if isinstance(v.t, TOpt) and v.t.t == st.vars[nm].t:
                    self.side_obligation(st, "none-deref", z3.Not(opt_is_none(v)), target, [])
                    v = opt_val(v)
                try:
                    v = coerce_to(v, st.vars[nm].t)
                except Unsupported:
                    if v.t == REAL and st.vars[nm].t == INT:
                        pass  # variable changes from int to float: allowed (new binding)
                    elif isinstance(st.vars[nm].t, TOpt) or v.t == NONE or st.vars[nm].t == NONE:
                        raise Unsupported(f"variable {nm} changes type {st.vars[nm].t} -> {v.t}; declare it in spec.types")
                    else:
                        raise Unsupported(f"variable {nm} changes type {st.vars[nm].t} -> {v.t}")
            if isinstance(v.t, TObj):
                raise Unsupported("object alias")
            st.vars[nm] = v
            st.unbound.pop(nm, None)
            return
        if isinstance(target, ast.Attribute) and isinstance(target.value, ast.Name):
            key = f"{target.value.id}.{target.attr}"
            base = st.vars.get(target.value.id)
            if base is None or not isinstance(base.t, TObj):
                raise Unsupported(f"attribute store on {target.value.id}")
            ft = self.fields_of(base.t.cls).get(target.attr)
            if ft is None:
                raise Drift(f"field {key} not declared in ClassSpec")
            st.vars[key] = coerce_to(v, ft)
            return
        if isinstance(target, ast.Subscript):
            if not getattr(self, "_in_store_back", False):
                self.note_mutation(target)
            ev2 = Eval(self, st)
            base = ev2.expr(target.value)
            if isinstance(target.slice, ast.Slice):
                raise Unsupported("slice assignment")
            if isinstance(base.t, TList):
                idx = ev2.expr(target.slice)
                ln = list_len(base)
                i = idx.z
                if (isinstance(target.slice, ast.UnaryOp) and isinstance(target.slice.op, ast.USub)
                        and isinstance(target.slice.operand, ast.Constant)):
                    i = ln + idx.z
                self.side_obligation(st, "bounds", z3.And(0 <= i, i < ln), target, [])
                newv = mk_list(base.t, ln, z3.Store(list_arr(base), i, coerce_to(v, base.t.elem).z))
            elif isinstance(base.t, TDict):
                k = coerce_to(ev2.expr(target.slice), base.t.k)
                had = z3.Select(dict_dom(base), k.z)
                newv = mk_dict(base.t, z3.Store(dict_dom(base), k.z, z3.BoolVal(True)),
                               z3.Store(dict_val(base), k.z, coerce_to(v, base.t.v).z),
                               z3.If(had, dict_card(base), dict_card(base) + 1))
            elif isinstance(base.t, TMap):
                k = coerce_to(ev2.expr(target.slice), base.t.k)
                newv = V(base.t, z3.Store(base.z, k.z, coerce_to(v, base.t.v).z))
            elif (isinstance(base.t, TTuple) and getattr(self, "_in_store_back", False) and isinstance(target.slice, ast.Constant)
                  and isinstance(target.slice.value, int)):
                # writing back a mutated item of a tuple (`bins[0][1].append(x)`: the list inside the tuple): the tuple value with
                # that item replaced; only reached from an in-place mutation of the item, a plain `t[i] = v` raises TypeError in Python
                i_ = target.slice.value % len(base.t.items)
                items_ = [tuple_get(base, k_).z for k_ in range(len(base.t.items))]
                items_[i_] = coerce_to(v, base.t.items[i_]).z
                newv = mk_tuple(base.t, items_)
            else:
                raise Unsupported(f"subscript store on {base.t}")
            self.assign(st, target.value, newv, ev)
            return
        if isinstance(target, (ast.Tuple, ast.List)):
            if isinstance(v.t, TTuple) and len(v.t.items) == len(target.elts):
                for i, t in enumerate(target.elts):
                    self.assign(st, t, tuple_get(v, i), ev)
                return
            raise Unsupported("unpacking non-tuple")
        raise Unsupported(f"assignment target {ast.unparse(target)}")

    # -- if
    def s_If(self, s, st):
        ev = Eval(self, st)
        c = z3.simplify(ev.boolean(s.test))
        if z3.is_true(c):
            return self.block(s.body, st)
        if z3.is_false(c):
            return self.block(s.orelse, st) if s.orelse else [(st, "normal", None)]
        base_len = len(st.pc)
        a = st.copy(); a.pc.append(c)
        b = st.copy(); b.pc.append(z3.Not(c))
        ra = self.block(s.body, a)
        rb = self.block(s.orelse, b) if s.orelse else [(b, "normal", None)]
        na = [x for x in ra if x[1] == "normal"]
        nb = [x for x in rb if x[1] == "normal"]
        rest = [x for x in ra + rb if x[1] != "normal"]
        if len(na) == 1 and len(nb) == 1:
            m = self.merge(c, na[0][0], nb[0][0], base_len)
            if m is not None:
                return rest + [(m, "normal", None)]
        return rest + na + nb

    def merge(self, c, a: State, b: State, base_len):
        m = State()
        one_sided = {k for k in set(a.vars) ^ set(b.vars) if "." not in k and (a.vars.get(k) or b.vars.get(k)).z is not None}
        for k in set(a.unbound) | set(b.unbound) | one_sided:
            ua = a.unbound.get(k, z3.BoolVal(k not in a.vars))
            ub = b.unbound.get(k, z3.BoolVal(k not in b.vars))
            m.unbound[k] = z3.simplify(z3.If(c, ua, ub))
        if a.pc[:base_len] != b.pc[:base_len] and any(not x.eq(y) for x, y in zip(a.pc[:base_len], b.pc[:base_len])):
            return None
        m.pc = list(a.pc[:base_len])
        ea, eb = a.pc[base_len + 1:], b.pc[base_len + 1:]
        if ea:
            m.pc.append(z3.Implies(c, z3.And(*ea)))
        if eb:
            m.pc.append(z3.Implies(z3.Not(c), z3.And(*eb)))
        for k in set(a.vars) | set(b.vars):
            va, vb = a.vars.get(k), b.vars.get(k)
            if va is None or vb is None:
                # bound on one side only: after the join the local is *possibly unbound* (reading it in code needs the
                # `unbound-local` obligation); clauses may still speak about it under the branch condition
                if k in one_sided:
                    m.vars[k] = va if va is not None else vb
                continue
            if va.z is None or vb.z is None:
                m.vars[k] = va
                continue
            if va.t != vb.t:
                try:
                    va2, vb2 = coerce_num(va, vb)
                    if va2.t != vb2.t:
                        if isinstance(va.t, TOpt):
                            vb2 = coerce_to(vb, va.t); va2 = va
                        elif isinstance(vb.t, TOpt):
                            va2 = coerce_to(va, vb.t); vb2 = vb
                        else:
                            return None
                    va, vb = va2, vb2
                except Unsupported:
                    return None
            m.vars[k] = va if va.z.eq(vb.z) else V(va.t, z3.If(c, va.z, vb.z))
        return m

    # -- return
    def do_return(self, st: State, value_node, at):
        st = st.copy()
        line = getattr(at, "lineno", self.fn.lineno) - self.fn.lineno
        if value_node is None:
            res = V(NONE, z3.BoolVal(True))
        else:
            ev = Eval(self, st)
            res = self.expr_typed(ev, value_node, self.ret_t if self.ret_t != NONE else None)
        if self.ret_t is not None and res.t != self.ret_t:
            res = coerce_to(res, self.ret_t)
        if res.t not in (INT, REAL, BOOL, NONE) and not (z3.is_const(res.z) and res.z.decl().kind() == z3.Z3_OP_UNINTERPRETED):
            named = fresh(res.t, "result")  # a name for the returned value, so that triggers over it are legal
            st.pc.append(named.z == res.z)
            self._named_result = (named.z, res.z)
            res = named
        for g, gexpr in self.spec.ghost_return.items():
            st.vars[g] = self.spec_value(gexpr, st, old=self.old, result=res)
        self.n_ret += 1
        if self.spec.cover and not self.variant.get("_dead_returns_ok") and not self.spec.dead_returns_ok:
            self.emit(st, "cover", z3.BoolVal(False), line, expect="refutable")
        # in ensures, parameter names denote the values at entry (parameters may be reassigned by the body)
        pst = st.copy()
        for p in self.param_names():
            if p in self.old.vars:
                pst.vars[p] = self.old.vars[p]
        pst.pc = st.pc
        for k, e in enumerate(self.spec.ensures):
            goal = self.clause(e, pst, old=self.old, result=res)
            for j, g in enumerate(self.conjuncts(goal)):
                nm_kind = f"post#{k}" + (f".{j}" if j else "")
                self.emit(st, nm_kind, g, line)
        # frame: fields / mutable inputs outside `modifies` are unchanged
        mods = set(self.spec.modifies)
        for name, v0 in self.old.vars.items():
            if v0.z is None or name in mods:
                continue
            if "." in name or isinstance(v0.t, (TList, TDict, TSet)):
                if name.split(".")[0] == "self" and self.fn.name == "__init__":
                    continue
                cur = st.vars.get(name)
                if cur is None:
                    continue
                if not cur.z.eq(v0.z):
                    self.emit(st, f"frame[{name}]", cur.z == v0.z, line)
        if self.fn.name == "__init__" and self.cls:
            c = self.reg.classes.get(self.cls)
            for f in (c.fields if c else {}):
                if f"self.{f}" not in st.vars:
                    self.emit(st, f"init-sets[{f}]", z3.BoolVal(False), line)

    # ------------------------------------------------------------------ loops
    def write_set(self, body_nodes, st: State):
        w = set()

        def visit(n):
            if isinstance(n, (ast.FunctionDef, ast.Lambda, ast.ClassDef)):
                return
            if isinstance(n, ast.Assign):
                for t in n.targets:
                    w.update(target_root(t))
            elif isinstance(n, (ast.AugAssign, ast.AnnAssign)):
                if not (isinstance(n, ast.AnnAssign) and n.value is None):
                    w.update(target_root(n.target))
            elif isinstance(n, ast.For):
                w.update(target_root(n.target))
            elif isinstance(n, ast.NamedExpr):
                w.update(target_root(n.target))
            elif isinstance(n, ast.Delete):
                for t in n.targets:
                    w.update(target_root(t))
            elif isinstance(n, ast.Call):
                f = n.func
                if isinstance(f, ast.Attribute):
                    recv = f.value
                    sp = self.method_spec(recv, f.attr, st)
                    if sp is not None:
                        rn = ast.unparse(recv)
                        for mname in sp.modifies:
                            w.add(mname.replace("self", rn, 1) if mname.startswith("self") else mname)
                    elif f.attr in MUTATING:
                        w.update(target_root(recv))
                    if f.attr == "shuffle" and n.args:
                        w.update(target_root(n.args[0]))
                elif isinstance(f, ast.Name) and f.id in ("heappush", "heappop", "heapify") and n.args:
                    w.update(target_root(n.args[0]))
                elif isinstance(f, ast.Name):
                    ov = st.vars.get(f.id)
                    if ov is not None and isinstance(ov.t, TObj):
                        # callable object: the write set of its __call__ contract
                        sp = self.reg.find_method(ov.t.cls, "__call__")
                        if sp is None:
                            raise Unsupported(f"call of object {f.id} without a __call__ contract")
                        for mname in sp.modifies:
                            w.add(mname.replace("self", f.id, 1) if mname.startswith("self") else mname)
                    else:
                        sp = self.function_spec(f.id)
                        if sp is not None:
                            w.update(self.callee_mods_in_caller(sp, n))
                            # arguments the callee may modify (lists passed by name)
                            a = n.args
                            try:
                                _, cfn, ccls = self.resolver(sp)
                                params = [p.arg for p in list(cfn.args.posonlyargs) + list(cfn.args.args) if not (p.arg == "self" and ccls)]
                                for pn, an in zip(params, a):
                                    if pn in sp.modifies:
                                        w.update(target_root(an))
                            except Exception:
                                pass
            for c in ast.iter_child_nodes(n):
                visit(c)

        for b in body_nodes:
            visit(b)
        # ghost assignments hooked on statements (ghost_before / ghost_after) and helper handles of builtins
        hooks = list(self.spec.ghost_after) + list(self.spec.ghost_before)
        if hooks:
            stmts_src = [ast.unparse(n).strip() for b in body_nodes for n in ast.walk(b) if isinstance(n, ast.stmt)]
            for pat, gvar, _ in hooks:  # only the ghost assignments whose statement occurs inside this loop
                if any(src_.startswith(pat) for src_ in stmts_src):
                    w.add(gvar)
        src = " ".join(ast.unparse(b) for b in body_nodes)
        if "sorted(" in src or ".sort(" in src:
            w.update({"_perm", "_perm_inv"})
        if ".values()" in src:
            w.update({"_key_at", "_pos_of"})
        if "heappop(" in src:
            w.update({"_heap_inv", "_heap_idx"})
        return w

    def havoc(self, st: State, names, hint="h"):
        for nm in sorted(names):
            v = st.vars.get(nm)
            if v is None:
                continue  # first assigned inside the loop: not live at the head
            if v.z is None:
                continue
            st.vars[nm] = self.new_sym(v.t, f"{nm}_{hint}", st)

    def loop_spec(self, node) -> tuple[int, LoopSpec]:
        k = self.loop_ord[id(node)]
        ls = self.spec.loops.get(k)
        if ls is None:
            ls = LoopSpec()
        return k, ls

    def check_invs(self, st, ls: LoopSpec, kind, k, bound=None, line=None):
        for i, inv in enumerate(ls.invariants):
            g = self.clause(inv, st, old=self.old, bound=bound)
            for j, gj in enumerate(self.conjuncts(g)):
                self.emit(st, f"{kind}#{k}.{i}" + (f".{j}" if j else ""), gj, line)

    def assume_invs(self, st, ls: LoopSpec, bound=None):
        for inv in ls.invariants:
            st.pc.append(self.clause(inv, st, old=self.old, bound=bound))

    def s_While(self, s, st):
        if s.orelse:
            raise Unsupported("while-else")
        k, ls = self.loop_spec(s)
        line = s.lineno - self.fn.lineno
        self.check_invs(st, ls, "inv-entry", k, line=line)
        w = self.write_set(s.body, st) | set(ls.ghost)
        self.__dict__.setdefault("_last_w", {})[id(s)] = set(w)
        h = st.copy()
        self.havoc(h, w, f"L{k}")
        self.assume_invs(h, ls)
        ev = Eval(self, h)
        g = ev.boolean(s.test)
        return self.loop_body_and_exit(s, h, g, z3.Not(g), k, ls, lambda stt: None, line)

    def loop_body_and_exit(self, s, h: State, enter, leave, k, ls: LoopSpec, step, line, after_leave=None):
        out = []
        body_st = h.copy()
        body_st.pc.append(enter)
        self.__dict__.setdefault("_loop_stack", []).append(k)
        self.emit(body_st, f"cover-loop#{k}", z3.BoolVal(False), line, expect="refutable")
        m0 = None
        if ls.decreases:
            m0 = self.measure(ls.decreases, body_st)
            self.emit(body_st, f"variant-bounded#{k}", z3.And(*[m >= 0 for m in m0]), line)
        for (s2, kind, payload) in self.block(s.body, body_st):
            if kind in ("normal", "continue"):
                self.check_write_set(h, s2, s)
                step(s2)
                for g, gexpr in ls.ghost.items():
                    s2.vars[g] = self.spec_value(gexpr, s2, old=self.old)
                self.check_invs(s2, ls, "inv-pres", k, line=line)
                if m0 is not None:
                    m1 = self.measure(ls.decreases, s2)
                    self.emit(s2, f"variant-decreases#{k}", self.lex_less(m1, m0), line)
            elif kind == "break":
                out.append((s2, "normal", None))
            else:
                out.append((s2, kind, payload))
        self._loop_stack.pop()
        if z3.is_false(z3.simplify(leave)):
            return out  # `while True`: the loop is only left through return / break
        ex = h.copy()
        ex.pc.append(leave)
        if after_leave:
            after_leave(ex)
        out.append((ex, "normal", None))
        return out

    def measure(self, src, st):
        """integer measure or lexicographic tuple of integer measures"""
        node = self.parse_clause(src)
        parts = node.elts if isinstance(node, ast.Tuple) else [node]
        ev = Eval(self, st, spec_mode=True, old_state=self.old)
        return [ev.expr(p).z for p in parts]

    def lex_less(self, a, b):
        res = z3.BoolVal(False)
        for x, y in reversed(list(zip(a, b))):
            res = z3.Or(x < y, z3.And(x == y, res))
        return res

    def resolve_named(self, z):
        rev = self.__dict__.get("_named_rev", {})
        seen = 0
        while z is not None and z.get_id() in rev and seen < 50:
            z = rev[z.get_id()]
            seen += 1
        return z

    def check_write_set(self, head: State, end: State, loop_node):
        """safety net for the syntactic write set: a variable that is not havoced at the loop head must have the
        same value at the end of the body (otherwise the invariant would be assumed for a stale value)"""
        w = getattr(self, "_last_w", {}).get(id(loop_node))
        if w is None:
            return
        for name, v0 in head.vars.items():
            if name in w or v0.z is None:
                continue
            v1 = end.vars.get(name)
            if v1 is None or v1.z is None:
                continue
            a, b = self.resolve_named(v0.z), self.resolve_named(v1.z)
            if not a.eq(b):
                raise Unsupported(f"write set of the loop at line {loop_node.lineno} misses '{name}' (engine defect: refusing to continue)")

    def s_For(self, s, st):
        from .forloops import exec_for
        return exec_for(self, s, st)

    # ------------------------------------------------------------------ hooks used by Eval
    def constant(self, name):
        from .builtins import constant
        return constant(self, name)

    def attribute(self, ev, base: V, attr, node):
        if isinstance(base.t, TRec):
            return tuple_get(base, base.t.index(attr))
        raise Unsupported(f"attribute .{attr} on {base.t}")

    def call(self, ev, node):
        from .builtins import do_call
        return do_call(self, ev, node)

    def contains(self, ev, container: V, item: V, node):
        if isinstance(container.t, TDict):
            return z3.Select(dict_dom(container), coerce_to(item, container.t.k).z)
        if isinstance(container.t, TSet):
            return z3.Select(set_mem(container), coerce_to(item, container.t.k).z)
        if isinstance(container.t, TMap) and container.t.v == BOOL:
            return z3.Select(container.z, coerce_to(item, container.t.k).z)
        if isinstance(container.t, TList):
            j = z3.Int(f"j!in{len(self.obls)}_{id(node) % 9973}")
            it = coerce_to(item, container.t.elem)
            return z3.Exists([j], z3.And(0 <= j, j < list_len(container), z3.Select(list_arr(container), j) == it.z))
        if isinstance(container.t, TTuple):
            return z3.Or(*[tuple_get(container, i).z == coerce_to(item, container.t.items[i]).z
                           for i in range(len(container.t.items))])
        if isinstance(container.t, TU) and container.t.uname == "opaque":
            return self.new_sym(BOOL, "opq_in", ev.st).z
        raise Unsupported(f"'in' on {container.t}")

    def list_repeat(self, ev, lst: V, n: V, node):
        if not (isinstance(node.left, ast.List) and len(node.left.elts) == 1) and not (
                isinstance(node.right, ast.List) and len(node.right.elts) == 1):
            raise Unsupported("list repetition of a non-singleton")
        if isinstance(lst.t.elem, (TList, TDict, TSet)):
            raise Unsupported("[mutable] * n creates aliased rows")
        elem = z3.Select(list_arr(lst), 0)
        return mk_list(lst.t, z3.If(n.z >= 0, n.z, 0), z3.K(z3.IntSort(), elem))

    def list_concat(self, ev, a, b, node):
        """a + b of two lists with the same element type: a fresh list value (no aliasing with either operand)"""
        if not (isinstance(a.t, TList) and isinstance(b.t, TList)) or a.t.elem != b.t.elem:
            raise Unsupported("list concatenation of different element types")
        if isinstance(a.t.elem, (TList, TDict, TSet)):
            raise Unsupported("concatenation of lists of mutable rows (aliased rows)")
        la, lb = list_len(a), list_len(b)
        r = self.new_sym(a.t, "concat", ev.st)
        j = z3.Int("j!cat")
        ev.st.pc.append(list_len(r) == la + lb)
        ev.st.pc.append(z3.ForAll([j], z3.Implies(z3.And(0 <= j, j < la + lb),
                                                  z3.Select(list_arr(r), j) == z3.If(j < la, z3.Select(list_arr(a), j), z3.Select(list_arr(b), j - la))),
                                  patterns=[z3.Select(list_arr(r), j)]))
        return r

    def list_literal(self, ev, node):
        vs = [ev.expr(e) for e in node.elts]
        if not vs:
            raise Unsupported("empty list literal without a declared type (add it to spec.types)")
        t = vs[0].t
        if any(v.t != t for v in vs):
            if all(v.t in (INT, REAL) for v in vs):
                vs = [coerce_to(v, REAL) for v in vs]; t = REAL
            else:
                raise Unsupported("heterogeneous list literal")
        arr = fresh(TMap(INT, t), "lit").z
        for i, v in enumerate(vs):
            arr = z3.Store(arr, i, v.z)
        return mk_list(TList(t), z3.IntVal(len(vs)), arr)

    def slice(self, ev, base, sl, node):
        if isinstance(base.t, TList) and sl.lower is None and sl.upper is None and sl.step is None:
            return base  # full copy: same value (value semantics)
        from .builtins import do_slice
        return do_slice(self, ev, base, sl, node)

    def listcomp(self, ev, node):
        from .builtins import do_listcomp
        return do_listcomp(self, ev, node)

    # -- callee lookup
    def method_spec(self, recv_node, meth, st):
        if isinstance(recv_node, ast.Name):
            v = st.vars.get(recv_node.id)
            if v is not None and isinstance(v.t, TObj):
                return self.reg.find_method(v.t.cls, meth)
        return None

    def function_spec(self, name):
        if name in self.nested:
            return self.reg.fns.get(f"{self.file}::{self.spec.qualname}.{name}")
        sp = self.reg.find_function(self.file, name)
        if sp is not None:
            return sp
        if "." in self.spec.qualname:  # sibling closure of the same enclosing function
            parent = self.spec.qualname.rsplit(".", 1)[0]
            sp = self.reg.fns.get(f"{self.file}::{parent}.{name}")
            if sp is not None:
                return sp
        # imported helpers: look up by bare name across files
        for s2 in self.reg.fns.values():
            if s2.qualname == name:
                return s2
        return None

    def callee_mods_in_caller(self, sp: FnSpec, call_node):
        out = set()
        for m in sp.modifies:
            if m in sp.captures:
                out.add(m)
        return out


def _resolver(self, sp):
    from .source import locate
    return locate(sp.file, sp.qualname)


Executor.resolver = _resolver

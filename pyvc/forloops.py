"""for-loops, cut at invariants.  Supported iteration spaces: range(...), a list-typed expression,
enumerate(list), zip(list, list), dict / dict.items() / set (ghost 'done' set).  The iterated
collection must not be written by the body (checked against the syntactic write set)."""
from __future__ import annotations

import ast

import z3

from .expr import Eval, Unsupported
from .types import (BOOL, INT, TDict, TList, TMap, TSet, TTuple, V, dict_card, dict_dom, dict_val, fresh, list_arr,
                    list_len, mk_tuple, set_card, set_mem, sort_of)


def exec_for(ex, s: ast.For, st):
    if s.orelse:
        raise Unsupported("for-else")
    k, ls = ex.loop_spec(s)
    line = s.lineno - ex.fn.lineno
    it = s.iter
    w = ex.write_set(s.body, st) | set(ls.ghost)  # ghost variables updated per iteration are loop-modified too
    from .symexec import target_root as _tr
    ex.__dict__.setdefault("_last_w", {})[id(s)] = set(w) | set(_tr(s.target)) | {ls.index or f"_k{k}", ls.done or f"_done{k}", (ls.done or f"_done{k}") + "_n", ls.index or f"_pair{k}"}
    ev = Eval(ex, st)

    # ---- range
    if isinstance(it, ast.Call) and isinstance(it.func, ast.Name) and it.func.id == "range":
        args = [ev.expr(a) for a in it.args]
        if any(a.t != INT for a in args):
            raise Unsupported("range over non-int")
        if len(args) == 1:
            lo, hi, step = z3.IntVal(0), args[0].z, 1
        elif len(args) == 2:
            lo, hi, step = args[0].z, args[1].z, 1
        else:
            lo, hi = args[0].z, args[1].z
            stp = z3.simplify(args[2].z)
            if not z3.is_int_value(stp) or stp.as_long() not in (1, -1):
                raise Unsupported("range step other than +-1")
            step = stp.as_long()
        if not isinstance(s.target, ast.Name):
            raise Unsupported("range target")
        name = s.target.id
        if name in w:
            raise Unsupported("loop variable assigned in the body")
        # freeze the bounds (range() evaluates its arguments once)
        prior = st.vars.get(name)
        prior_unbound = st.unbound.get(name)
        st.vars[name] = V(INT, lo)
        st.unbound.pop(name, None)
        if step == 1:
            rng = lambda i: z3.And(lo <= i, z3.Or(i <= hi, i == lo))
            enter = lambda i: i < hi
        else:
            rng = lambda i: z3.And(i <= lo, z3.Or(i >= hi, i == lo))
            enter = lambda i: i > hi
        ex.check_invs(st, ls, "inv-entry", k, line=line)
        h = st.copy()
        ex.havoc(h, w | {name}, f"L{k}")
        iv = h.vars[name].z
        h.pc.append(rng(iv))
        ex.assume_invs(h, ls)

        def stepf(s2):
            s2.vars[name] = V(INT, iv + step)

        def after(exs):
            # python leaves the LAST value taken (not the bound); if the loop never ran the name keeps its
            # earlier binding, or stays unbound
            ran = (iv > lo) if step == 1 else (iv < lo)
            if prior is not None and prior.z is not None and prior.t == INT:
                exs.vars[name] = V(INT, z3.If(ran, iv - step, prior.z))
                if prior_unbound is not None:
                    exs.unbound[name] = z3.And(z3.Not(ran), prior_unbound)
            else:
                exs.vars[name] = V(INT, iv - step)
                exs.unbound[name] = z3.Not(ran)

        out = []
        res = ex.loop_body_and_exit(s, h, enter(iv), z3.Not(enter(iv)), k, ls, stepf, line, after_leave=after)
        return res

    # ---- sequences
    def seq_value(node):
        v = ev.expr(node)
        if not isinstance(v.t, TList):
            raise Unsupported(f"for over {v.t}")
        for r in roots(node):
            if r in w:
                raise Unsupported(f"iterated list {r} is modified in the loop body")
        return v

    def roots(node):
        from .symexec import target_root
        try:
            return target_root(node)
        except Unsupported:
            return []

    seqs = None
    mode = None
    if isinstance(it, ast.Call) and isinstance(it.func, ast.Name) and it.func.id == "enumerate" and len(it.args) == 1:
        seqs = [seq_value(it.args[0])]
        mode = "enumerate"
    elif isinstance(it, ast.Call) and isinstance(it.func, ast.Name) and it.func.id == "zip":
        seqs = [seq_value(a) for a in it.args]
        mode = "zip"
    elif isinstance(it, ast.Call) and isinstance(it.func, ast.Name) and it.func.id == "reversed" and len(it.args) == 1:
        seqs = [seq_value(it.args[0])]
        mode = "reversed"
    else:
        is_comb = isinstance(it, ast.Call) and isinstance(it.func, ast.Name) and it.func.id == "combinations"
        v = ev.expr(it) if not is_comb and not (isinstance(it, ast.Call) and isinstance(it.func, ast.Attribute)
                                                and it.func.attr in ("items", "keys", "values")) else None
        if v is not None and isinstance(v.t, TList):
            seqs = [seq_value(it)]
            mode = "plain"
    if seqs is not None:
        idx_name = ls.index or f"_k{k}"
        n = list_len(seqs[0])
        if mode == "zip":
            for q in seqs[1:]:
                n = z3.If(list_len(q) < n, list_len(q), n)
        st.vars[idx_name] = V(INT, z3.IntVal(0))
        ex.check_invs(st, ls, "inv-entry", k, line=line)
        h = st.copy()
        tnames = set()
        from .symexec import target_root
        tnames.update(target_root(s.target))
        if tnames & w:
            raise Unsupported("loop target assigned in the body")
        ex.havoc(h, w | {idx_name}, f"L{k}")
        for tn in tnames:
            h.vars.pop(tn, None)
        kv = h.vars[idx_name].z
        h.pc.append(z3.And(0 <= kv, kv <= n))
        ex.assume_invs(h, ls)
        body = h.copy()
        pos = kv if mode != "reversed" else n - 1 - kv
        elems = [V(q.t.elem, z3.Select(list_arr(q), pos)) for q in seqs]
        if mode == "plain" or mode == "reversed":
            val = elems[0]
        elif mode == "enumerate":
            val = mk_tuple(TTuple([INT, elems[0].t]), [kv, elems[0].z])
        else:
            val = mk_tuple(TTuple([e.t for e in elems]), [e.z for e in elems])
        # bind on the body state: done inside loop_body via enter hook
        class _S:  # tiny adaptor so that binding happens on the body state copy
            pass
        orig_block = ex.block

        # loop targets that name mutable elements of the sequence are second names for them
        if mode in ("plain", "reversed") and isinstance(s.target, ast.Name):
            ex.note_alias(s.target.id, ast.Subscript(value=it if mode == "plain" else it.args[0], slice=ast.Constant(0), ctx=ast.Load()), elems[0])
        elif mode == "enumerate" and isinstance(s.target, ast.Tuple) and isinstance(s.target.elts[1], ast.Name):
            ex.note_alias(s.target.elts[1].id, ast.Subscript(value=it.args[0], slice=ast.Constant(0), ctx=ast.Load()), elems[0])

        def block_with_bind(stmts, bst):
            if stmts is s.body:
                ex.assign(bst, s.target, val, Eval(ex, bst))
            return orig_block(stmts, bst)

        ex.block = block_with_bind
        try:
            def stepf(s2):
                s2.vars[idx_name] = V(INT, kv + 1)
                for tn in tnames:
                    s2.vars.pop(tn, None)

            def after(exs):
                for tn in tnames:
                    exs.vars.pop(tn, None)

            res = ex.loop_body_and_exit(s, h, kv < n, kv >= n, k, ls, stepf, line, after_leave=after)
        finally:
            ex.block = orig_block
        return res

    # ---- itertools.combinations(xs, 2): all index pairs p < q, each exactly once (ghost done-set of index pairs)
    if (isinstance(it, ast.Call) and isinstance(it.func, ast.Name) and it.func.id == "combinations" and len(it.args) == 2
            and isinstance(it.args[1], ast.Constant) and it.args[1].value == 2):
        xs = seq_value(it.args[0])
        pt = TTuple([INT, INT])
        done_name = ls.done or f"_done{k}"
        st.vars[done_name] = V(TMap(pt, BOOL), z3.K(sort_of(pt), z3.BoolVal(False)))
        ex.check_invs(st, ls, "inv-entry", k, line=line)
        h = st.copy()
        from .symexec import target_root
        tnames = set(target_root(s.target))
        ex.havoc(h, w | {done_name}, f"L{k}")
        dn = h.vars[done_name].z
        n = list_len(xs)
        qp = z3.Const(f"qp!comb{k}", sort_of(pt))
        acc = sort_of(pt)

        def member(t):
            a0, a1 = acc.accessor(0, 0)(t), acc.accessor(0, 1)(t)
            return z3.And(0 <= a0, a0 < a1, a1 < n)

        h.pc.append(z3.ForAll([qp], z3.Implies(z3.Select(dn, qp), member(qp)), patterns=[z3.Select(dn, qp)]))
        ex.assume_invs(h, ls)
        x = fresh(pt, "pair")
        enter = z3.And(member(x.z), z3.Not(z3.Select(dn, x.z)))
        all_done = z3.ForAll([qp], z3.Implies(member(qp), z3.Select(dn, qp)), patterns=[z3.Select(dn, qp)])
        p_, q_ = acc.accessor(0, 0)(x.z), acc.accessor(0, 1)(x.z)
        val = mk_tuple(TTuple([xs.t.elem, xs.t.elem]), [z3.Select(list_arr(xs), p_), z3.Select(list_arr(xs), q_)])
        pos_name = ls.index or f"_pair{k}"
        orig_block = ex.block

        def block_with_bind(stmts, bst):
            if stmts is s.body:
                bst.vars[pos_name] = x
                ex.assign(bst, s.target, val, Eval(ex, bst))
            return orig_block(stmts, bst)

        ex.block = block_with_bind
        try:
            def stepf(s2):
                s2.vars[done_name] = V(TMap(pt, BOOL), z3.Store(dn, x.z, z3.BoolVal(True)))
                for tn in tnames | {pos_name}:
                    s2.vars.pop(tn, None)

            def after(exs):
                for tn in tnames:
                    exs.vars.pop(tn, None)

            return ex.loop_body_and_exit(s, h, enter, all_done, k, ls, stepf, line, after_leave=after)
        finally:
            ex.block = orig_block

    # ---- dict / set iteration with a ghost 'done' set (order arbitrary: A6)
    coll_node, what = it, "keys"
    if isinstance(it, ast.Call) and isinstance(it.func, ast.Attribute) and it.func.attr in ("items", "keys", "values"):
        coll_node, what = it.func.value, it.func.attr
    coll = ev.expr(coll_node)
    if not isinstance(coll.t, (TDict, TSet)):
        raise Unsupported(f"for over {coll.t}")
    for r in roots(coll_node):
        if r in w:
            raise Unsupported(f"iterated collection {r} is modified in the loop body")
    kt = coll.t.k
    done_name = ls.done or f"_done{k}"
    member = (lambda x: z3.Select(dict_dom(coll), x)) if isinstance(coll.t, TDict) else (
        lambda x: z3.Select(set_mem(coll), x))
    st.vars[done_name] = V(TMap(kt, BOOL), z3.K(sort_of(kt), z3.BoolVal(False)))
    ex.check_invs(st, ls, "inv-entry", k, line=line)
    h = st.copy()
    from .symexec import target_root
    tnames = set(target_root(s.target))
    ex.havoc(h, w | {done_name}, f"L{k}")
    dn = h.vars[done_name].z
    x = fresh(kt, "it")
    q = z3.Const(f"q!done{k}", sort_of(kt))
    # the done-set only holds members; the loop is entered with an arbitrary member not yet visited and
    # left when every member has been visited (each element exactly once, order arbitrary: A6)
    h.pc.append(z3.ForAll([q], z3.Implies(z3.Select(dn, q), member(q)), patterns=[z3.Select(dn, q)]))
    ex.assume_invs(h, ls)
    enter = z3.And(member(x.z), z3.Not(z3.Select(dn, x.z)))
    all_done = z3.ForAll([q], z3.Implies(member(q), z3.Select(dn, q)), patterns=[member(q)])
    if what == "keys":
        val = x
    elif what == "items":
        val = mk_tuple(TTuple([kt, coll.t.v]), [x.z, z3.Select(dict_val(coll), x.z)])
    else:
        val = V(coll.t.v, z3.Select(dict_val(coll), x.z))
    orig_block = ex.block

    def block_with_bind(stmts, bst):
        if stmts is s.body:
            ex.assign(bst, s.target, val, Eval(ex, bst))
        return orig_block(stmts, bst)

    ex.block = block_with_bind
    try:
        def stepf(s2):
            s2.vars[done_name] = V(TMap(kt, BOOL), z3.Store(dn, x.z, z3.BoolVal(True)))
            for tn in tnames:
                s2.vars.pop(tn, None)

        def after(exs):
            for tn in tnames:
                exs.vars.pop(tn, None)

        res = ex.loop_body_and_exit(s, h, enter, all_done, k, ls, stepf, line, after_leave=after)
    finally:
        ex.block = orig_block
    return res

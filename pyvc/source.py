"""Locate the real function in /repo's working tree by qualname (DESIGN 2.2)."""
from __future__ import annotations

import ast
import os

REPO = os.environ.get("VERIF_REPO", "/repo")
_cache: dict[str, ast.Module] = {}


class Drift(Exception):
    pass


def module_ast(relfile: str) -> ast.Module:
    if relfile not in _cache:
        p = os.path.join(REPO, relfile)
        if not os.path.exists(p):
            raise Drift(f"file {relfile} missing")
        with open(p) as f:
            _cache[relfile] = ast.parse(f.read(), filename=p)
    return _cache[relfile]


def locate(relfile: str, qualname: str):
    """returns (module_ast, function node, enclosing class name or None)"""
    mod = module_ast(relfile)
    parts = qualname.split(".")
    node = mod
    cls = None
    for i, p in enumerate(parts):
        found = None
        for c in ast.walk(node) if i > 0 and isinstance(node, ast.FunctionDef) else ast.iter_child_nodes(node):
            if isinstance(c, (ast.FunctionDef, ast.ClassDef)) and c.name == p and c is not node:
                found = c
                break
        if found is None:
            raise Drift(f"{relfile}::{qualname}: '{p}' not found")
        if isinstance(found, ast.ClassDef):
            cls = found.name
        node = found
    if not isinstance(node, ast.FunctionDef):
        raise Drift(f"{relfile}::{qualname} is not a function")
    return mod, node, cls


def skeleton(fn_node) -> str:
    """statement skeleton of a function: the pre-order sequence of statement kinds (expressions ignored)"""
    import hashlib
    kinds = []

    def walk(n, depth):
        for c in ast.iter_child_nodes(n):
            if isinstance(c, ast.stmt):
                kinds.append(f"{depth}{type(c).__name__}")
                walk(c, depth + 1)
            elif isinstance(c, (ast.ExceptHandler,)):
                walk(c, depth + 1)

    walk(fn_node, 0)
    return hashlib.sha1(" ".join(kinds).encode()).hexdigest()[:12]


def text_hash(fn_node) -> str:
    """hash of the function's AST (docstrings and comments do not matter, every expression does)"""
    import hashlib
    import copy
    n = copy.deepcopy(fn_node)
    for x in ast.walk(n):
        body = getattr(x, "body", None)
        if isinstance(body, list) and body and isinstance(body[0], ast.Expr) and isinstance(body[0].value, ast.Constant) and isinstance(body[0].value.value, str):
            x.body = body[1:] or [ast.Pass()]
    return hashlib.sha1(ast.dump(n).encode()).hexdigest()[:12]

"""Triage helper for C09 / network_simplex (not part of the check): runs an instrumented copy of the function (source
of $VERIF_REPO/solvor/network_simplex.py with two probe calls spliced in, nothing else changed) and relates wrong
results to (a) pivots whose leaving arc is not the tree arc directly above the entering arc's endpoint ("deep" pivots)
and (b) the first spanning-tree invariant that is broken at a loop head.

    cd /verif && .venv/bin/python triage/C09_ns_trace.py [n_random_cases]
    cd /verif && .venv/bin/python triage/C09_ns_trace.py exh3 | exh4     (exhaustive scopes of the check, no parallel arcs)
"""
from __future__ import annotations

import os
import random
import sys

sys.path.insert(0, os.path.dirname(os.path.dirname(os.path.abspath(__file__))))
from vf.core import REPO, use_repo  # noqa: E402

use_repo()
import checks.C09 as C  # noqa: E402

TRACE = {}


def probe(kind, L):
    if kind == "pivot":
        end = L["first"] if L["leaving_first"] else L["second"]
        TRACE["pivots"] = TRACE.get("pivots", 0) + 1
        if L["leaving_node"] != end:
            TRACE.setdefault("deep_at", L["iterations"])
        return
    if "broken" in TRACE:
        return
    n, root, tn = L["n"], L["root"], L["total_nodes"]
    parent, pred, depth, thread, pi = L["parent"], L["pred"], L["depth"], L["thread"], L["pi"]
    src, tgt, cost, flow, cap = L["source"], L["target"], L["cost"], L["flow"], L["cap"]
    bad = None
    for i in range(n):
        a = pred[i]
        if {src[a], tgt[a]} != {i, parent[i]}:
            bad = "pred[i] does not join i and parent[i]"
            break
    if bad is None:
        for i in range(n):
            x, k = i, 0
            while x != root and k <= tn:
                x, k = parent[x], k + 1
            if x != root:
                bad = "parent pointers contain a cycle"
                break
    if bad is None and any(depth[i] != depth[parent[i]] + 1 for i in range(n)):
        bad = "depth != depth of parent + 1"
    if bad is None:
        order, x = [], root
        for _ in range(tn):
            order.append(x)
            x = thread[x]
        if x != root or len(set(order)) != tn:
            bad = "thread is not a cycle through all nodes"
        else:
            stack = [root]
            for y in order[1:]:
                while stack and stack[-1] != parent[y]:
                    stack.pop()
                if not stack:
                    bad = "thread is not a preorder of the tree"
                    break
                stack.append(y)
    if bad is None:
        for i in range(n):
            a = pred[i]
            if abs(cost[a] - pi[src[a]] + pi[tgt[a]]) > 1e-9:
                bad = "tree arc with non-zero reduced cost"
                break
    if bad is None:
        tree = {pred[i] for i in range(n)}
        for a in range(L["total_arcs"]):
            if a not in tree and 0 < flow[a] < cap[a]:
                bad = "non-tree arc strictly between its bounds"
                break
    if bad is not None:
        TRACE["broken"] = (L["iterations"], bad)


def instrumented():
    src = open(os.path.join(REPO, "solvor", "network_simplex.py")).read()
    a = "        iterations += 1\n"
    b = "            prev_thread = rev_thread[leaving_node]\n"
    assert src.count(a) == 1 and src.count(b) == 1, "source drifted"
    src = src.replace(a, a + "        _probe('head', locals())\n").replace(b, "            _probe('pivot', locals())\n" + b)
    ns = {"_probe": probe, "__name__": "ns_traced"}
    exec(compile(src, "network_simplex(traced)", "exec"), ns)
    return ns["network_simplex"]


def cases(mode):
    import itertools
    from oracles.flow_exact import has_negative_cycle
    if mode.startswith("exh"):
        n, K, caps, costs, bmax = (3, 3, (0, 1, 2), (-1, 0, 1, 2), 2) if mode == "exh3" else (4, 3, (1, 2), (0, 1, 3), 1)
        types = C.arc_types(n, caps, costs)
        vecs = C.balanced_vectors(n, bmax)
        for k in range(1, K + 1):
            for combo in itertools.combinations(range(len(types)), k):
                arcs = [list(types[i]) for i in combo]
                if len({(a[0], a[1]) for a in arcs}) < k or has_negative_cycle(n, arcs):
                    continue
                for b in vecs:
                    yield {"kind": "flow", "n": n, "arcs": arcs, "supplies": b}
        return
    rng = random.Random(0)
    for _ in range(10 ** 9):
        yield C.gen_flow_case(rng, 3, 8)


def main():
    mode = sys.argv[1] if len(sys.argv) > 1 else "20000"
    N = int(mode) if mode.isdigit() else 10 ** 9
    ns = instrumented()
    rows = {}
    n_cases = 0
    smallest = {}
    for case in cases(mode):
        if n_cases >= N:
            break
        arcs = [tuple(a) for a in case["arcs"]]
        if len({(a[0], a[1]) for a in arcs}) < len(arcs):
            continue  # parallel arcs: a separate defect (flow_dict overwrites), excluded here
        n_cases += 1
        TRACE.clear()
        o = C.oracle_for(case["n"], arcs, case["supplies"])
        st, res = C.guarded(2.0, ns, case["n"], arcs, list(case["supplies"]), max_iter=20000)
        if st == "ok" and res.iterations >= 20000:
            st = "timeout"
        out = C.judge("network_simplex", st, res, case["n"], arcs, case["supplies"], o)
        wrong = bool(out)
        key = ("deep pivot" if "deep_at" in TRACE else "no deep pivot",
               "tree invariant broken" if "broken" in TRACE else "tree ok", "WRONG" if wrong else "right")
        rows[key] = rows.get(key, 0) + 1
        if wrong:
            k2 = out[0][0].split(":")[-1]
            rows[("wrong by clause", k2, "")] = rows.get(("wrong by clause", k2, ""), 0) + 1
            sz = C._size(case)
            if k2 not in smallest or sz < smallest[k2][0]:
                smallest[k2] = (sz, case, dict(TRACE), out[0][1])
        if "broken" in TRACE:
            k3 = ("first broken invariant", TRACE["broken"][1], "after deep pivot" if TRACE.get("deep_at", 1 << 30) < TRACE["broken"][0] else "NO deep pivot before")
            rows[k3] = rows.get(k3, 0) + 1
    print(f"{n_cases} cases without parallel arcs, mode {mode} (random: generator of checks/C09.py, seed 0)")
    for k in sorted(rows):
        print(f"  {rows[k]:7d}  {' / '.join(x for x in k if x)}")
    for k, (sz, case, tr, d) in smallest.items():
        print("smallest", k, case, tr, d)


if __name__ == "__main__":
    main()
